"""C17 — client credentials are only sent to a verified, accepted server."""
import os
import tempfile
import threading
import time
import warnings

import paramiko
from paramiko.common import MSG_NEWKEYS

from vf import keys, net, pair, tap

META = dict(
    title="credentials only after verified kex / accepted host key",
    level="exploration",
    design_ref="§3 C17",
    technique="client wire-tap (cipher state + order of every auth-protocol message) + raw link byte search for the "
              "secret + policy-call log, over a gated handshake and a host-key/policy matrix",
    text="(A) auth_* is called from a second thread at every stage of a handshake whose server->client direction is "
         "released packet by packet (classic Transport and ServiceRequestingTransport), before start and after close: "
         "every SERVICE_REQUEST/USERAUTH_REQUEST/INFO_RESPONSE on the client's tap must be encrypted and come after "
         "the client's own NEWKEYS (sent only after the host signature verified). (B) SSHClient.connect over known_hosts "
         "x policy x port x key-type matrix and Transport.connect(hostkey=): a server whose key differs from a known "
         "one, or an unknown server the policy rejects, must see no auth-protocol message and connect must raise; an "
         "accepted unknown server sees them only after the policy returned. The secret password must never appear in "
         "the raw client->server byte log.",
    note="Expected outcomes come from the property statement (known key differs => nothing; unknown => policy decides), "
         "not from reading client.py. Auth-protocol messages = types 5, 50, 61.",
    rule="case = (stage index, api, transport class) or (known_hosts state, policy, port, key type, auth method) or "
         "(Transport.connect hostkey relation); distinct = that tuple; all are non-trivial",
    assumptions=["the tap's `enc` flag reads the packetizer's outbound cipher object under the tap lock"],
)

AUTH_TYPES = (5, 50, 61)
PW = "S3cr3t-vf-" + "9f2c77d1a4"


def shards(tier):
    return 4 if tier == "quick" else 12


def auth_records(rec):
    return [e for e in rec.snapshot() if e.get("kind") == "msg" and e["side"] == "c" and e["dir"] == "out"
            and e["type"] in AUTH_TYPES]


def raw_has_secret(link):
    blob = b"".join(link.ab.log)
    return PW.encode() in blob


def judge_tap(ctx, rec, link, desc, allowed):
    """Common oracle: auth traffic only encrypted + after own NEWKEYS; none at all when not allowed."""
    ev = rec.snapshot()
    nk = [e["n"] for e in ev if e.get("kind") == "msg" and e["side"] == "c" and e["dir"] == "out"
          and e["type"] == MSG_NEWKEYS]
    first_nk = nk[0] if nk else None
    ar = auth_records(rec)
    ctx.count("auth_protocol_messages_seen", len(ar))
    for e in ar:
        if not e["enc"]:
            ctx.violation("auth-protocol message type %d sent without an outbound cipher" % e["type"],
                          "client emitted message type %d in plaintext" % e["type"], dict(case=desc))
        elif first_nk is None or e["n"] < first_nk:
            ctx.violation("auth-protocol message type %d sent before the client's initial NEWKEYS" % e["type"],
                          "client emitted message type %d before the initial key exchange completed" % e["type"],
                          dict(case=desc))
    if raw_has_secret(link):
        ctx.violation("password bytes visible in the raw client->server stream",
                      "the secret password occurs in plaintext on the wire", dict(case=desc))
    if not allowed and ar:
        ctx.violation("auth-protocol traffic sent to a server that must receive nothing (type %d first)" % ar[0]["type"],
                      "client sent %s although the host key was wrong / the policy rejected"
                      % [e["type"] for e in ar], dict(case=desc))
    return ar


# ---------------------------------------------------------------- part A
def stage_case(ctx, idx):
    rng = ctx.rng
    cls = rng.choice([paramiko.Transport, paramiko.ServiceRequestingTransport])
    kex = rng.choice(["curve25519-sha256@libssh.org", "ecdh-sha2-nistp256", "diffie-hellman-group14-sha256",
                      "diffie-hellman-group-exchange-sha256"])
    desc = dict(kind="lifecycle", transport=cls.__name__, kex=kex)
    disabled = dict(kex=[k for k in paramiko.Transport._preferred_kex if k != kex])
    moduli = None
    if "group-exchange" in kex:
        moduli = _moduli_file()
        paramiko.Transport.load_server_moduli(moduli)
    rec = tap.Recorder()
    link = net.Link(rng)
    srv = pair.LogServer(rec, users={"u": PW})
    ts = paramiko.Transport(link.b, packetizer_class=tap.make_tap(rec, "s"), disabled_algorithms=disabled)
    ts.add_server_key(keys.rsa())
    tc = cls(link.a, packetizer_class=tap.make_tap(rec, "c"), disabled_algorithms=disabled)
    ukey = keys.ecdsa()
    apis = [
        ("auth_password", lambda: tc.auth_password("u", PW)),
        ("auth_publickey", lambda: tc.auth_publickey("u", ukey)),
        ("auth_none", lambda: tc.auth_none("u")),
        ("auth_interactive", lambda: tc.auth_interactive("u", lambda t, i, p: [PW for _ in p])),
    ]
    attempts = []
    pending = []

    def attempt(stage):
        name, fn = apis[rng.randrange(len(apis))]
        out = {}

        def body():
            try:
                out["r"] = ("returned", fn())
            except BaseException as e:
                out["r"] = ("raised", type(e).__name__)
        th = threading.Thread(target=body, daemon=True)
        th.start()
        pending.append(th)
        th.join(1.5)
        done_kex = tc.initial_kex_done
        attempts.append((stage, name, out.get("r", ("blocked", None))[0], done_kex))
        ctx.count("auth_attempts")
        if not done_kex:
            ctx.count("auth_attempts_before_kex_done")
        return out.get("r")

    try:
        attempt("before-start")
        link.ba.hold()
        ts.start_server(event=threading.Event(), server=srv)
        ev = threading.Event()
        tc.start_client(event=ev)
        stage = 0
        end = time.monotonic() + 25
        while not tc.initial_kex_done and tc.is_active() and time.monotonic() < end:
            time.sleep(0.03)
            attempt("handshake-%d" % stage)
            if tc.initial_kex_done:
                break
            if link.ba.held:
                link.ba.release(1)
                stage += 1
            else:
                time.sleep(0.02)
        link.ba.release()
        pair.wait_for(lambda: tc.initial_kex_done or not tc.is_active(), 10)
        if not tc.initial_kex_done:
            # judge what was observed anyway: a premature auth message is itself the refutation
            nv = len(ctx.violations)
            judge_tap(ctx, rec, link, dict(desc, attempts=attempts), allowed=True)
            for stg, name, how, done_kex in attempts:
                if not done_kex and how != "raised":
                    ctx.violation("auth call before initial kex completion did not raise (%s)" % how,
                                  "%s at %s %s instead of raising" % (name, stg, how), dict(case=desc, attempts=attempts))
            if len(ctx.violations) == nv:
                ctx.inconclusive("lifecycle handshake did not finish: %r %r" % (desc, tc.saved_exception))
            return
        ctx.count("handshake_stages_probed", stage)
        # after kex: a real authentication must work and be encrypted
        for th in pending:
            th.join(35)
        try:
            if not tc.is_authenticated():
                tc.auth_password("u", PW)
            ctx.count("post_kex_auth_ok")
        except Exception as e:
            ctx.count("post_kex_auth_failed_after_overlapping_attempts")
        tc.close()
        pair.wait_for(lambda: not tc.is_active(), 3)
        attempt("after-close")
        ar = judge_tap(ctx, rec, link, dict(desc, attempts=attempts), allowed=True)
        # every attempt made before kex completion must have raised and sent nothing
        for stg, name, how, done_kex in attempts:
            if not done_kex and how != "raised":
                ctx.violation("auth call before initial kex completion did not raise (%s)" % how,
                              "%s at %s %s instead of raising" % (name, stg, how), dict(case=desc, attempts=attempts))
        ctx.case(("A", cls.__name__, kex, idx), sample=dict(desc, attempts=attempts[:12], auth_msgs=len(ar)) if idx < 1 else None)
    finally:
        tc.close()
        ts.close()
        if moduli:
            paramiko.Transport._modulus_pack = None
            os.unlink(moduli)


def _moduli_file():
    from paramiko import kex_group14

    p = kex_group14.KexGroup14.P
    fd, path = tempfile.mkstemp(prefix="vf-moduli-")
    with os.fdopen(fd, "w") as f:
        f.write("20200101000000 2 6 100 %d 2 %X\n" % (p.bit_length() - 1, p))
    return path


# ---------------------------------------------------------------- part B
class LoggingPolicy(paramiko.MissingHostKeyPolicy):
    def __init__(self, rec, inner):
        self.rec = rec
        self.inner = inner

    def missing_host_key(self, client, hostname, key):
        self.rec.add(kind="policy", phase="called", hostname=hostname)
        try:
            r = self.inner.missing_host_key(client, hostname, key)
        except BaseException as e:
            self.rec.add(kind="policy", phase="raised", exc=type(e).__name__)
            raise
        self.rec.add(kind="policy", phase="returned")
        return r


class _Raise(paramiko.MissingHostKeyPolicy):
    def missing_host_key(self, client, hostname, key):
        raise paramiko.SSHException("vf: custom policy says no")


def _raiser(exc_factory):
    class _R(paramiko.MissingHostKeyPolicy):
        def missing_host_key(self, client, hostname, key):
            raise exc_factory()
    return _R


class _Accept(paramiko.MissingHostKeyPolicy):
    def missing_host_key(self, client, hostname, key):
        return None


POLICIES = dict(reject=(paramiko.RejectPolicy, False), autoadd=(paramiko.AutoAddPolicy, True),
                warning=(paramiko.WarningPolicy, True), custom_raise=(_Raise, False), custom_accept=(_Accept, True),
                # a policy that fails for any reason has not accepted the server
                custom_raise_oserror=(_raiser(lambda: PermissionError(13, "vf: cannot record host key")), False),
                custom_raise_ioerror=(_raiser(lambda: IOError("vf: known_hosts not writable")), False),
                custom_raise_valueerror=(_raiser(lambda: ValueError("vf: policy bug")), False),
                custom_raise_badhostkey=(_raiser(lambda: paramiko.BadHostKeyException("h", None, None)), False))
STATES = ["same", "diff-same-type", "other-type-only", "hashed-same", "hashed-diff", "port-entry-same",
          "port-entry-diff", "plain-entry-other-port", "none", "multi-host-line-same", "same-plus-other-type",
          "multi-host-line-diff", "mixed-line-hashed-first-diff", "mixed-line-hashed-first-same",
          "hashed-other-line-then-plain-diff", "bare-same-other-port", "bare-same-plus-port-diff",
          "alias-on-later-line-diff", "alias-on-later-line-same", "multi-name-then-conflicting-line"]
KEYTYPES = ["rsa", "ecdsa", "ed25519"]
METHODS = ["password", "pkey", "strategy-password", "strategy-pkey"]


def _key(kind, idx):
    return dict(rsa=keys.rsa, ecdsa=lambda b=256, i=0: keys.ecdsa(256, i), ed25519=keys.ed25519)[kind](
        *((2048, idx) if kind == "rsa" else (256, idx) if kind == "ecdsa" else (idx,)))


def client_case(ctx, idx, combo=None):
    rng = ctx.rng
    states = STATES
    state, pol, ktype, method = combo or (rng.choice(states), rng.choice(sorted(POLICIES)), rng.choice(KEYTYPES),
                                          rng.choice(METHODS))
    port = 2222 if state.startswith("port-entry") or state == "plain-entry-other-port" or state.startswith("bare-") else 22
    # which store the entries are loaded into: the user file or the system-wide one
    store = "system" if idx % 3 == 2 else "user"
    host = "vfhost.example"
    desc = dict(kind="sshclient", known=state, policy=pol, keytype=ktype, method=method, port=port, store=store)
    server_key = _key(ktype, 0)
    other_same_type = _key(ktype, 1)
    other_type = _key([k for k in KEYTYPES if k != ktype][idx % 2], 0)
    rec = tap.Recorder()
    link = net.Link(rng)
    srv = pair.LogServer(rec, users={"u": PW})
    ukey = keys.ecdsa(384)
    srv.allowed_keys = [ukey]
    ts = paramiko.Transport(link.b, packetizer_class=tap.make_tap(rec, "s"))
    ts.add_server_key(server_key)
    ts.start_server(event=threading.Event(), server=srv)
    cl = paramiko.SSHClient()
    name = host if port == 22 else "[%s]:%d" % (host, port)

    def line(hostfield, key):
        return "%s %s %s\n" % (hostfield, key.get_name(), key.get_base64())

    known_applies = None  # None = unknown host; True = known & same; False = known & different
    text = "# vf known_hosts\nunrelated.example %s %s\n" % (other_type.get_name(), other_type.get_base64())
    if state == "same":
        text += line(name, server_key)
        known_applies = True
    elif state == "diff-same-type":
        text += line(name, other_same_type)
        known_applies = False
    elif state == "other-type-only":
        text += line(name, other_type)
        known_applies = False
    elif state == "hashed-same":
        text += line(paramiko.HostKeys.hash_host(name), server_key)
        known_applies = True
    elif state == "hashed-diff":
        text += line(paramiko.HostKeys.hash_host(name), other_same_type)
        known_applies = False
    elif state == "port-entry-same":
        text += line(name, server_key)
        known_applies = True
    elif state == "port-entry-diff":
        text += line(name, other_same_type)
        known_applies = False
    elif state == "plain-entry-other-port":
        text += line(host, other_same_type)  # entry for port 22 only
        known_applies = None
    elif state == "multi-host-line-same":
        text += line("a.example,%s,b.example" % name, server_key)
        known_applies = True
    elif state == "multi-host-line-diff":
        text += line("a.example,%s,b.example" % name, other_same_type)
        known_applies = False
    elif state.startswith("mixed-line-hashed-first"):
        # one line listing several names, a hashed name of some other host first
        k = server_key if state.endswith("same") else other_same_type
        text += line("%s,%s" % (paramiko.HostKeys.hash_host("elsewhere.example"), name), k)
        known_applies = state.endswith("same")
    elif state == "hashed-other-line-then-plain-diff":
        text += line(paramiko.HostKeys.hash_host("elsewhere.example"), server_key) + line(name, other_same_type)
        known_applies = False
    elif state.startswith("alias-on-later-line"):
        # the name we connect by appears only as an additional name on a later line that repeats an
        # earlier line's host and key
        k = server_key if state.endswith("same") else other_same_type
        text += line("gateway.example", k) + line("gateway.example,%s" % name, k)
        known_applies = state.endswith("same")
    elif state == "multi-name-then-conflicting-line":
        # our name is pinned to K1 on a line shared with an address; a later line gives that ADDRESS
        # another key K2 (the one the server presents): our name must stay pinned to K1
        text += line("%s,10.0.0.5" % name, other_same_type) + line("10.0.0.5", server_key)
        known_applies = False
    elif state == "bare-same-other-port":
        # the port-22 name lists the very key the server on port 2222 presents: still an unknown host
        text += line(host, server_key)
        known_applies = None
    elif state == "bare-same-plus-port-diff":
        text += line(host, server_key) + line(name, other_same_type)
        known_applies = False
    elif state == "same-plus-other-type":
        text += line(name, other_type) + line(name, server_key)
        known_applies = True
    fd, khpath = tempfile.mkstemp(prefix="vf-kh-")
    with os.fdopen(fd, "w") as f:
        f.write(text)
    if store == "system":
        cl.load_system_host_keys(khpath)
        ctx.count("cases_with_system_host_keys")
    else:
        cl.load_host_keys(khpath)
    if idx % 2 == 0:
        # the same client object has looked up another host before (a reused SSHClient / HostKeys)
        cl.get_host_keys().lookup("warmup.example")
        cl._system_host_keys.lookup("warmup.example")
        ctx.count("cases_after_an_earlier_lookup_of_another_host")
    pcls, accepts = POLICIES[pol]
    cl.set_missing_host_key_policy(LoggingPolicy(rec, pcls()))
    allowed = known_applies if known_applies is not None else accepts
    tapcls = tap.make_tap(rec, "c")
    err = None
    strategy = None
    if method.startswith("strategy"):
        from paramiko.auth_strategy import AuthStrategy, InMemoryPrivateKey, Password

        class _Strategy(AuthStrategy):
            def get_sources(self):
                if method == "strategy-password":
                    yield Password("u", lambda: PW)
                else:
                    yield InMemoryPrivateKey("u", ukey)

        strategy = _Strategy(ssh_config=paramiko.SSHConfig())
    try:
        with warnings.catch_warnings():
            warnings.simplefilter("ignore")
            cl.connect(host, port=port, sock=link.a, username="u",
                       password=PW if method == "password" else None,
                       pkey=ukey if method == "pkey" else None,
                       auth_strategy=strategy,
                       look_for_keys=False, allow_agent=False, timeout=20,
                       transport_factory=lambda sock, **kw: paramiko.Transport(sock, packetizer_class=tapcls, **kw))
    except Exception as e:
        err = e
    try:
        ar = judge_tap(ctx, rec, link, desc, allowed)
        ev = rec.snapshot()
        pol_ret = [e["n"] for e in ev if e.get("kind") == "policy" and e["phase"] == "returned"]
        pol_called = [e["n"] for e in ev if e.get("kind") == "policy" and e["phase"] == "called"]
        if known_applies is None:
            ctx.count("policy_decisions_observed", len(pol_called))
            if ar and (not pol_ret or ar[0]["n"] < pol_ret[0]):
                ctx.violation("auth-protocol traffic sent to an unknown server before the policy accepted it",
                              "first auth message precedes the policy's return", dict(case=desc))
        if not allowed and err is None:
            ctx.violation("connect returned normally although the server must be refused",
                          "SSHClient.connect returned for known=%s policy=%s" % (state, pol), dict(case=desc))
        if allowed:
            if err is not None:
                ctx.violation("connect to an acceptable server failed (%s)" % type(err).__name__,
                              "known=%s policy=%s: %r" % (state, pol, err), dict(case=desc))
            elif not ar:
                ctx.inconclusive("accepted server saw no auth traffic: %r" % (desc,))
            else:
                ctx.count("accepted_servers_authenticated")
        else:
            ctx.count("refused_servers_observed")
        ctx.case(("B", state, pol, ktype, method, store), sample=dict(desc, error=repr(err), auth_msgs=[e["type"] for e in ar]) if idx < 3 else None)
    finally:
        cl.close()
        ts.close()
        os.unlink(khpath)


def transport_connect_case(ctx, idx):
    rng = ctx.rng
    rel = ["same", "diff-same-type", "diff-type"][idx % 3]
    ktype = rng.choice(KEYTYPES)
    desc = dict(kind="transport.connect", hostkey=rel, keytype=ktype)
    server_key = _key(ktype, 0)
    expect_key = dict(same=server_key, **{"diff-same-type": _key(ktype, 1),
                                          "diff-type": _key([k for k in KEYTYPES if k != ktype][idx % 2], 0)})[rel]
    rec0 = tap.Recorder()
    p = pair.Pair(rng, host_keys=[server_key], recorder=rec0, server=pair.LogServer(rec0, users={"u": PW}))
    err = None
    p.ts.start_server(event=threading.Event(), server=p.server)
    try:
        p.tc.connect(hostkey=expect_key, username="u", password=PW)
    except Exception as e:
        err = e
    try:
        allowed = rel == "same"
        ar = judge_tap(ctx, p.rec, p.link, desc, allowed)
        if not allowed and err is None:
            ctx.violation("connect returned normally although the server must be refused",
                          "Transport.connect(hostkey=%s) returned" % rel, dict(case=desc))
        if allowed and err is not None:
            ctx.violation("connect to an acceptable server failed (%s)" % type(err).__name__, repr(err), dict(case=desc))
        ctx.count("refused_servers_observed" if not allowed else "accepted_servers_authenticated")
        ctx.case(("C", rel, ktype), sample=dict(desc, error=repr(err), auth_msgs=[e["type"] for e in ar]) if idx < 2 else None)
    finally:
        p.close()


def run(ctx):
    dl = ctx.deadline(100, 900)
    for i in range(ctx.pick(3, 12)):
        if time.time() < dl:
            ctx.guard(stage_case, ctx, i)
    # full matrix of known-state x policy, partitioned over shards; key type / method random
    states = STATES
    combos = [(s, p) for s in states for p in sorted(POLICIES)]
    reps = ctx.pick(1, 4)
    k = 0
    for r in range(reps):
        for (s, p) in combos:
            k += 1
            if not ctx.mine(k) or time.time() > dl:
                continue
            ctx.guard(client_case, ctx, k, (s, p, ctx.rng.choice(KEYTYPES), METHODS[k % len(METHODS)]))
    for i in range(ctx.pick(3, 9)):
        if time.time() < dl:
            ctx.guard(transport_connect_case, ctx, i + ctx.shard)
    ctx.require("auth_attempts_before_kex_done", 10)
    ctx.require("auth_protocol_messages_seen", 20)
    ctx.require("refused_servers_observed", 10)
    ctx.require("accepted_servers_authenticated", 10)
    ctx.require("policy_decisions_observed", 5)
    ctx.require("cases_with_system_host_keys", 10)
    ctx.require("cases_after_an_earlier_lookup_of_another_host", 20)
    ctx.require("post_kex_auth_ok", 3)
