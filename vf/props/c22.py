"""C22 -- EOF and CLOSE at most once per side per channel, no data after own
EOF/CLOSE, a peer's CLOSE is answered, and after both CLOSEs the channel is
released and operations on it fail instead of sending."""
import random
import socket
import threading
import time

from vf import chanmon as cm
from vf import pair

META = dict(
    title="channel EOF/CLOSE discipline on the wire",
    level="exploration",
    design_ref="§3 C22",
    technique="wire automaton per channel per side over the tap (in wire order), with the channel-lock decisions "
              "(window allocated / eof_sent set / closed set) logged in the same order to name the mechanism",
    text="2-4 application threads run random programs over close, shutdown(0/1/2), shutdown_write, send, sendall, "
         "send_stderr and recv on one end of a real channel while the peer reads and, at a random moment, sends EOF "
         "or CLOSE itself. Schedules are perturbed by delays injected (a) before a message is written (tap on_send "
         "hook) and (b) at the entry of Transport._send_user_message, i.e. in the gap Channel._send leaves between "
         "releasing the channel lock and sending. For each side and channel the tap is replayed through an "
         "automaton: second EOF, second CLOSE, DATA/EXTENDED_DATA after own EOF or CLOSE, peer CLOSE unanswered at "
         "quiescence, channel still in Transport._channels after both CLOSEs, and any message or non-failing send "
         "caused by an operation on the released channel are violations. Holds on the executions produced; random "
         "perturbation, not an enumeration of interleavings.",
    note="EOF after own CLOSE, window adjustments or requests after CLOSE are counted but not judged (not in the "
         "statement). send_exit_status on a released channel (it does send a CHANNEL_REQUEST) is recorded as a note, "
         "outside the statement's operation set.",
    rule="case = thread programs (op lists) x subject side x peer action x perturbation mode; distinct = hash of the "
         "descriptor; trivial = a case in which the subject sent neither EOF nor CLOSE",
    assumptions=["tap out-records are in wire order (send_message serialised by the tap lock)"],
)

OPS = ("close", "shutdown0", "shutdown1", "shutdown2", "shutdown_write", "send", "sendall", "send_stderr", "recv")
KNOWN_GAP = "data after own EOF/CLOSE: writer past Channel._send's lock release"


END_SIGS = ("peer CLOSE not answered", "channel not released after both CLOSEs")


def shards(tier):
    return 8 if tier == "quick" else 16


def gen_case(rng, idx):
    nthreads = rng.choice((1, 2, 2, 3, 3, 4))
    progs = []
    for t in range(nthreads):
        n = rng.randint(1, 6)
        prog = []
        for _ in range(n):
            op = rng.choice(OPS + ("send", "sendall", "send_stderr"))
            arg = rng.choice((1, 10, 3000, 40000)) if op.startswith("send") or op == "recv" else 0
            prog.append((op, arg))
        progs.append(prog)
    if idx % 5 == 0:
        # make sure a closer meets writers in every few cases
        progs = [[("send", 3000)] * 4 for _ in range(max(1, nthreads - 1))] + [[("send", 10), rng.choice(
            (("close", 0), ("shutdown_write", 0), ("shutdown2", 0), ("shutdown1", 0)))]]
    if idx % 11 == 3:
        # sequential: end the stream, then try to write (one thread: no race, strict stratum)
        end = rng.choice((("close", 0), ("shutdown_write", 0), ("shutdown2", 0)))
        progs = [[("send", 100), end, ("send", 100), ("send_stderr", 100), ("sendall", 100)]]
    return dict(subject=rng.choice("cs"), progs=progs, peer=rng.choice(("none", "eof", "close", "close", "eof+close")),
                peer_delay=rng.choice((0, 0.001, 0.004)), mode=rng.choice(("none", "on_send", "gap", "gap", "both")),
                delay=rng.choice((0.0005, 0.002, 0.005)), pdelay=rng.choice((0.3, 0.7, 1.0)))


def do_op(chan, op, arg, rec, side):
    rec.add(kind="api", side=side, op=op, phase="call", thread=threading.get_ident())
    res = "ok"
    try:
        if op == "close":
            chan.close()
        elif op == "shutdown0":
            chan.shutdown(0)
        elif op == "shutdown1":
            chan.shutdown(1)
        elif op == "shutdown2":
            chan.shutdown(2)
        elif op == "shutdown_write":
            chan.shutdown_write()
        elif op == "send":
            res = chan.send(b"\x11" * arg)
        elif op == "sendall":
            with SpinGuard(chan):
                chan.sendall(b"\x22" * arg)
        elif op == "send_stderr":
            res = chan.send_stderr(b"\x93" * arg)
        elif op == "sendall_stderr":
            with SpinGuard(chan):
                chan.sendall_stderr(b"\x94" * arg)
        elif op == "recv":
            res = len(chan.recv(arg))
        elif op == "recv_stderr":
            res = len(chan.recv_stderr(arg))
        elif op == "makefile_stdin_close":
            chan.makefile_stdin().close()
        elif op == "send_exit_status":
            chan.send_exit_status(arg)
    except Spin:
        res = "spin"
    except Exception as e:
        res = "raise:" + type(e).__name__
    rec.add(kind="api", side=side, op=op, phase="ret", res=res, thread=threading.get_ident())
    return res


class Spin(BaseException):
    pass


class SpinGuard:
    """sendall on a half-closed channel spins forever on HEAD (that is C25's finding, not judged here):
    break out of the loop after repeated zero-length sends so the workload continues."""

    def __init__(self, chan):
        self.chan = chan

    def __enter__(self):
        chan = self.chan
        zeros = [0]
        for name in ("send", "send_stderr"):
            orig = getattr(type(chan), name)

            def wrapped(s, _orig=orig):
                r = _orig(chan, s)
                if r == 0 and len(s):
                    zeros[0] += 1
                    if zeros[0] >= 2:
                        raise Spin()
                return r

            # per-thread dispatch: only the calling thread's sendall sees the guard
            tl = chan.__dict__.setdefault("_vf_tl", threading.local())
            setattr(tl, name, wrapped)
        _install_dispatch(chan)
        return self

    def __exit__(self, *a):
        tl = self.chan.__dict__.get("_vf_tl")
        for name in ("send", "send_stderr"):
            if hasattr(tl, name):
                delattr(tl, name)
        return False


def _install_dispatch(chan):
    if chan.__dict__.get("_vf_dispatch"):
        return
    chan._vf_dispatch = True
    for name in ("send", "send_stderr"):
        orig = getattr(type(chan), name)

        def disp(s, _name=name, _orig=orig):
            f = getattr(chan._vf_tl, _name, None)
            if f is not None:
                return f(s)
            return _orig(chan, s)

        setattr(chan, name, disp)


# ---------------------------------------------------------------------------
def automaton(ctx, inst, transport, case, final=True, api=None):
    """Replay one side's view of one channel instance.  `api` = that side's API call records (kind="api"), used to tell
    a message produced by a call that was already in flight at release time from one produced afterwards."""
    if not inst.established:
        return
    ctx.count("channel_sides_judged")
    eof_out = close_out = 0
    eof_n = close_n = close_in_n = None
    close_in = False
    winok = {}  # thread -> last successful window allocation event
    used_grants = set()
    eofset_n = closedset_n = None
    seen = set()

    def once(sig, what, **w):
        if sig not in seen:
            seen.add(sig)
            ctx.violation(sig, what, dict(case=case, chan=inst.desc(), excerpt=inst.excerpt(40), **w))

    for e in inst.ev:
        d, t = e["d"], e["t"]
        if d == "app":
            if t == "winok" and e["len"] > 0 and (e["eof_sent"] or e["closed"]):
                # decided under the channel's own lock, independent of any later lock-release race
                ctx.count("window_grants_after_end_of_stream")
                once("window wait granted bytes after own EOF/CLOSE (eof_sent=%s, closed=%s)" % (e["eof_sent"], e["closed"]),
                     "_wait_for_send_window returned %d with the stream already ended" % e["len"])
            if t == "winok" and e["len"] > 0:
                winok[e["thread"]] = e
            elif t == "eofset" and eofset_n is None:
                eofset_n = e["n"]
            elif t == "closedset" and closedset_n is None:
                closedset_n = e["n"]
            continue
        if d == "out" and close_in and close_out and t not in (cm.CLOSE, cm.DATA, cm.EXT):
            # (late DATA/EXTENDED_DATA is classified by mechanism further down: lock-release gap / reused grant / late grant)
            # both CLOSEs exchanged: the channel is released, nothing at all may name it any more
            rel = max(close_n, close_in_n)
            inflight = False
            for a in (api or ()):
                if a["thread"] == e.get("thread") and a["n"] < rel and a["phase"] == "call":
                    done = [b for b in api if b["thread"] == a["thread"] and b["phase"] == "ret" and a["n"] < b["n"] < e["n"]]
                    if not done:
                        inflight = True
            if inflight:
                ctx.count("unjudged_late_message_from_call_in_flight_at_release")
            else:
                ctx.count("messages_after_release")
                once("%s sent for a released channel (after both CLOSEs were exchanged)" % cm.NAMES.get(t, t),
                     "own CLOSE sent and peer CLOSE read, yet a %s naming the channel went out" % cm.NAMES.get(t, t))
        if d == "in":
            if t == cm.CLOSE:
                close_in = True
                close_in_n = e["n"]
                ctx.count("peer_close_read")
            elif t == cm.EOF:
                ctx.count("peer_eof_read")
            continue
        # own messages, wire order
        if t == cm.EOF:
            eof_out += 1
            ctx.count("eof_sent")
            if eof_out == 1:
                eof_n = e["n"]
            if eof_out == 2:
                once("second EOF sent on one channel", "a side sent CHANNEL_EOF twice")
            if close_out:
                ctx.count("unjudged_eof_after_own_close")
        elif t == cm.CLOSE:
            close_out += 1
            ctx.count("close_sent")
            if close_out == 1:
                close_n = e["n"]
            if close_out == 2:
                once("second CLOSE sent on one channel", "a side sent CHANNEL_CLOSE twice")
        elif t in (cm.DATA, cm.EXT):
            ctx.count("data_msgs_seen")
            w = winok.get(e.get("thread"))
            # one window grant (one pass through Channel._send's critical section) pays for exactly one message
            fresh = w is not None and w["n"] not in used_grants
            if w is not None:
                used_grants.add(w["n"])
            if eof_out or close_out:
                flags = [x for x in (eofset_n, closedset_n) if x is not None]
                first_flag = min(flags) if flags else None
                after = "EOF" if eof_out and not close_out else "CLOSE" if close_out and not eof_out else "EOF+CLOSE"
                if w is not None and not fresh:
                    ctx.count("data_after_end_from_a_reused_grant")
                    once("data after own EOF/CLOSE: packet k>1 of one call (%s after %s)" % (cm.NAMES[t], after),
                         "a later packet of a multi-packet send went out after the stream had been ended: the flags were "
                         "checked once per call, not once per packet", grant=dict(n=w["n"], len=w["len"]), msg_len=e["len"])
                elif w is not None and first_flag is not None and w["n"] < first_flag:
                    ctx.violation(KNOWN_GAP,
                                  "a writer that had been granted window before another thread ended the stream sent its "
                                  "%s after the %s was on the wire" % (cm.NAMES[t], after),
                                  dict(case=case, chan=inst.desc(), excerpt=inst.excerpt(30)))
                    ctx.count("data_after_end_via_gap")
                else:
                    once("data after own EOF/CLOSE: window granted after eof_sent/closed was set (%s after %s)" % (
                        cm.NAMES[t], after),
                        "a send that started after the stream was ended still put data on the wire",
                        winok=w and dict(n=w["n"], eof_sent=w["eof_sent"], closed=w["closed"]), first_flag=first_flag)
        elif t == cm.ADJUST and close_out:
            ctx.count("unjudged_adjust_after_own_close")
        elif t == cm.REQUEST and close_out:
            ctx.count("unjudged_request_after_own_close")
    if final:
        if close_in and not close_out:
            once("peer CLOSE not answered", "the peer's CHANNEL_CLOSE was read but no CLOSE was sent by quiescence")
        if close_in and close_out:
            ctx.count("both_closes_exchanged")
            if transport._channels.get(inst.local) is not None:
                once("channel not released after both CLOSEs", "Transport._channels still holds the channel id")
    return dict(eof_out=eof_out, close_out=close_out, close_in=close_in)


def released_ops(ctx, p, chan, side, inst, case):
    """Operations on a released channel must fail / must not send."""
    for op, arg in (("send", 5), ("sendall", 5), ("send_stderr", 5), ("sendall_stderr", 5), ("shutdown_write", 0),
                    ("shutdown2", 0), ("close", 0), ("recv", 5), ("shutdown1", 0), ("makefile_stdin_close", 0),
                    ("send_exit_status", 7), ("recv_stderr", 5)):
        mark = len(p.rec.events)
        res = do_op(chan, op, arg, p.rec, side)
        ctx.count("released_channel_ops")
        p.wait_quiet(0.0, 1)
        new = [e for e in p.rec.snapshot()[mark:] if e.get("kind") == "msg" and e["side"] == side and e["dir"] == "out"
               and cm.OPEN <= e["type"] <= cm.FAILURE]
        if new:
            ctx.violation("%s on a released channel sent %s" % (op, cm.NAMES[new[0]["type"]]),
                          "an operation on a channel whose CLOSEs were both exchanged put a message on the wire",
                          dict(case=case, chan=inst.desc(), op=op))
        if op in ("send", "sendall", "send_stderr", "sendall_stderr") and not str(res).startswith("raise:"):
            ctx.violation("%s on a released channel did not fail (returned %s)" % (op, "a count" if isinstance(res, int) else res),
                          "a write on a released channel returned normally", dict(case=case, op=op, res=res))


def run_case(ctx, case, rng):
    mode = case["mode"]
    delay, pd = case["delay"], case["pdelay"]
    subj = case["subject"]
    prng = random.Random(rng.getrandbits(32))

    def on_send(tap, ptype, raw):
        if ptype in (cm.DATA, cm.EXT, cm.EOF, cm.CLOSE) and prng.random() < pd * 0.5:
            time.sleep(delay)

    hooks = {subj: on_send} if mode in ("on_send", "both") else None
    p = pair.Pair(rng=rng, on_send=hooks)
    cm.watch(p.tc, p.rec, "c")
    cm.watch(p.ts, p.rec, "s")
    try:
        if not p.start() or not p.auth():
            ctx.inconclusive("handshake failed")
            return
        cm.diverge_ids(p, rng)
        c, s = p.session()
        if s is None:
            ctx.inconclusive("no server channel")
            return
        if c.chanid != c.remote_chanid:
            ctx.count("channels_with_local_id_ne_remote_id")
        x, y = (c, s) if subj == "c" else (s, c)
        tx = p.tc if subj == "c" else p.ts
        yside = "s" if subj == "c" else "c"
        if mode in ("gap", "both"):
            orig = tx._send_user_message

            def gap(data):
                # the calling thread holds no paramiko lock here: this is the gap after Channel._send's unlock
                if data.asbytes()[:1] in (b"\x5e", b"\x5f") and prng.random() < pd:
                    time.sleep(delay)
                return orig(data)

            tx._send_user_message = gap
        x.settimeout(0.05)
        y.settimeout(0.05)
        rd = cm.PollReader(y, rng.getrandbits(32), 65536).start()
        ths = []
        for prog in case["progs"]:
            def worker(prog=prog):
                for op, arg in prog:
                    do_op(x, op, arg, p.rec, subj)
            ths.append(threading.Thread(target=worker, daemon=True))

        def peer():
            try:
                y.send(b"\x55" * 2000)  # something for the subject's recv ops
            except Exception:
                pass
            time.sleep(case["peer_delay"])
            if "eof" in case["peer"]:
                do_op(y, "shutdown_write", 0, p.rec, yside)
            if "close" in case["peer"]:
                do_op(y, "close", 0, p.rec, yside)

        if case["peer"] != "none":
            ths.append(threading.Thread(target=peer, daemon=True))
        rng.shuffle(ths)
        for t in ths:
            t.start()
        for t in ths:
            t.join(60)
        if any(t.is_alive() for t in ths):
            ctx.inconclusive("C22 workload thread did not finish")
            rd.stop()
            return
        rd.stop()
        # finish the life cycle: whoever has not closed, closes now; then both CLOSEs must cross
        do_op(x, "close", 0, p.rec, subj)
        released = pair.wait_for(lambda: p.tc._channels.get(c.get_id()) is None and p.ts._channels.get(s.get_id()) is None
                                 and p.link.quiescent(0.02), 5, 0.003)
        final = True
        if not released:
            # not a time verdict: the end-state clauses are judged only once the link has been silent for a long margin
            # (the first witness pays the full margin; repeats of an already witnessed end-state defect do not)
            margin = 0.3 if any(k in ctx.violations for k in END_SIGS) else ctx.pick(3.0, 6.0)
            final = p.wait_quiet(margin, 30)
            if not final:
                ctx.inconclusive("link never went quiet after close")
            ctx.count("cases_not_released")
        ev = p.rec.snapshot()
        st = {}
        for side, tr in (("c", p.tc), ("s", p.ts)):
            insts, _ = cm.ledger(ev, side)
            for inst in insts:
                st[side] = (automaton(ctx, inst, tr, case, final, [a for a in ev if a.get("kind") == "api" and a["side"] == side]), inst)
        ok = all(v[0] and v[0]["close_in"] and v[0]["close_out"] for v in st.values()) and len(st) == 2
        if not released and ok:
            pass  # automaton already reported "not released"
        if ok and released:
            for side, chan in (("c", c), ("s", s)):
                released_ops(ctx, p, chan, side, st[side][1], case)
            ctx.count("released_channels_probed", 2)
        # race coverage: did a close/shutdown run while a send was in flight on the subject?
        calls = [e for e in ev if e.get("kind") == "api" and e["side"] == subj]
        open_sends = {}
        overlap = False
        for e in calls:
            if e["op"].startswith("send"):
                if e["phase"] == "call":
                    open_sends[e["thread"]] = 1
                else:
                    open_sends.pop(e["thread"], None)
            elif e["op"] in ("close", "shutdown1", "shutdown2", "shutdown_write") and e["phase"] == "call" and open_sends:
                overlap = True
        if overlap:
            ctx.count("cases_with_end_during_send")
        ctx.count("cases_run")
        return st.get(subj, (None,))[0]
    finally:
        p.close()


# ---------------------------------------------------------------------------
# peer CLOSE / EOF / want_reply request handled while this side is inside a key exchange, then idle re-keys
MSG_KEXINIT, MSG_NEWKEYS = 20, 21


def gen_kex_case(rng, idx):
    return dict(kind="close-during-kex", subject="cs"[idx % 2], peer=("close", "eof+close", "request+close", "eof")[idx // 2 % 4],
                idle_rekeys=1 + idx % 3, later_initiators=[rng.choice("cs") for _ in range(3)], data=rng.choice((0, 10, 5000)))


def run_kex_case(ctx, case, rng):
    subj = case["subject"]  # X: the side that processes the peer's messages mid-kex
    p = pair.Pair(rng=rng)
    cm.watch(p.tc, p.rec, "c")
    cm.watch(p.ts, p.rec, "s")
    try:
        if not p.start() or not p.auth():
            ctx.inconclusive("handshake failed (kex stratum)")
            return
        cm.diverge_ids(p, rng)
        c, s = p.session()
        if s is None:
            ctx.inconclusive("no server channel (kex stratum)")
            return
        x, y = (c, s) if subj == "c" else (s, c)
        tx, ty = (p.tc, p.ts) if subj == "c" else (p.ts, p.tc)
        yside = "s" if subj == "c" else "c"
        to_x = p.link.ba if subj == "c" else p.link.ab  # direction that carries what Y sends
        if case["data"]:
            y.send(b"\x33" * case["data"])
            x.send(b"\x44" * case["data"])
            p.wait_quiet(0.02, 5)
        to_x.hold()
        req = None
        if "request" in case["peer"] and yside == "c":
            # a want_reply channel request (the reply is generated on X's transport thread)
            req = threading.Thread(target=lambda: do_op_exec(y, p.rec, yside), daemon=True)
            req.start()
            pair.wait_for(lambda: len(p.msgs(yside, "out", (cm.REQUEST,))) > 0, 10, 0.002)
        if "eof" in case["peer"]:
            do_op(y, "shutdown_write", 0, p.rec, yside)
        if "close" in case["peer"]:
            do_op(y, "close", 0, p.rec, yside)
        n_kex = len(p.msgs(subj, "out", (MSG_KEXINIT,)))
        errs = []

        def rekey(tr):
            try:
                tr.renegotiate_keys()
            except Exception as e:
                errs.append(repr(e))

        rk = threading.Thread(target=rekey, args=(tx,), daemon=True)
        rk.start()
        if not pair.wait_for(lambda: len(p.msgs(subj, "out", (MSG_KEXINIT,))) > n_kex, 20, 0.002):
            ctx.inconclusive("X never sent KEXINIT (kex stratum)")
            to_x.release()
            return
        to_x.release()  # EOF / CLOSE / request now reach X inside its key exchange
        rk.join(90)
        if req is not None:
            req.join(30)
        if rk.is_alive() or errs:
            ctx.inconclusive("re-key with in-flight close did not complete: %s" % errs)
            return
        # renegotiate_keys() returns when the peer's NEWKEYS was parsed; the messages held back during the exchange are
        # flushed by the transport thread right after that, and only then is clear_to_send set again: wait for that state
        settled = pair.wait_for(lambda: all(t.clear_to_send.is_set() for t in (p.tc, p.ts)) and p.link.quiescent(0.1), 30, 0.005)
        if not settled:
            ctx.inconclusive("transports did not settle after the re-key (kex stratum)")
            return
        # did X really read the peer's message inside its kex window (own KEXINIT .. own NEWKEYS)?
        inside = False
        open_kex = False
        for e in p.rec.snapshot():
            if e.get("kind") != "msg" or e["side"] != subj:
                continue
            if e["dir"] == "out" and e["type"] == MSG_KEXINIT:
                open_kex = True
            elif e["dir"] == "out" and e["type"] == MSG_NEWKEYS:
                open_kex = False
            elif e["dir"] == "in" and open_kex and e["type"] in (cm.CLOSE, cm.EOF, cm.REQUEST):
                inside = True
                ctx.count("closes_handled_during_kex" if e["type"] == cm.CLOSE else
                          "eofs_handled_during_kex" if e["type"] == cm.EOF else "requests_handled_during_kex")
        if not inside:
            ctx.count("kex_cases_message_missed_the_window")
        # idle re-keys: nobody uses the connection layer now
        for k in range(case["idle_rekeys"]):
            tr = p.tc if case["later_initiators"][k] == "c" else p.ts
            mark = len(p.rec.events)
            t = threading.Thread(target=rekey, args=(tr,), daemon=True)
            t.start()
            t.join(90)
            if t.is_alive() or errs:
                ctx.inconclusive("idle re-key did not complete: %s" % errs)
                return
            pair.wait_for(lambda: all(t.clear_to_send.is_set() for t in (p.tc, p.ts)) and p.link.quiescent(0.1), 30, 0.005)
            ctx.count("idle_rekeys_after_close")
            for e in p.rec.snapshot()[mark:]:
                if e.get("kind") == "msg" and e["dir"] == "out" and e["type"] >= 80:
                    ctx.violation("connection-layer message sent during an idle re-key (%s)" % cm.NAMES.get(e["type"], e["type"]),
                                  "with no application activity a key re-exchange made side %s emit message type %d" % (
                                      e["side"], e["type"]), dict(case=case, rekey=k))
                    break
        # finish the life cycle and run the automaton over the whole tap
        do_op(x, "close", 0, p.rec, subj)
        do_op(y, "close", 0, p.rec, yside)
        released = pair.wait_for(lambda: p.tc._channels.get(c.get_id()) is None and p.ts._channels.get(s.get_id()) is None
                                 and p.link.quiescent(0.02), 5, 0.003)
        final = released or p.wait_quiet(ctx.pick(3.0, 6.0), 30)
        ev = p.rec.snapshot()
        for side, tr in (("c", p.tc), ("s", p.ts)):
            insts, _ = cm.ledger(ev, side)
            for inst in insts:
                automaton(ctx, inst, tr, case, final, [a for a in ev if a.get("kind") == "api" and a["side"] == side])
        ctx.count("kex_cases_run")
        return inside
    finally:
        p.close()


def run_parked_case(ctx, case, rng):
    w = 32768
    role = case["role"]
    p = pair.Pair(rng=rng, server_kw=dict(default_window_size=w) if role == "c" else {})
    cm.watch(p.tc, p.rec, "c")
    cm.watch(p.ts, p.rec, "s")
    try:
        if not p.start() or not p.auth():
            ctx.inconclusive("handshake failed (parked stratum)")
            return
        cm.diverge_ids(p, rng)
        c, s = p.session(window_size=w if role == "s" else None)
        r = cm.parked_writer_scenario(p, c, s, role, case["api"], case["ender"], case["size"], w)
        if not r["ok"]:
            ctx.inconclusive("parked-writer scenario not reached: %s" % r.get("why"))
            return
        ctx.count("parked_writer_cases")
        if r["seen"]["adjust_in_before_reacquire"]:
            ctx.count("adjust_processed_before_writer_reacquired_lock")
        x, y = (c, s) if role == "c" else (s, c)
        do_op(x, "close", 0, p.rec, role)
        do_op(y, "close", 0, p.rec, "s" if role == "c" else "c")
        released = pair.wait_for(lambda: p.tc._channels.get(c.get_id()) is None and p.ts._channels.get(s.get_id()) is None
                                 and p.link.quiescent(0.02), 5, 0.003)
        final = released or p.wait_quiet(ctx.pick(3.0, 6.0), 30)
        ev = p.rec.snapshot()
        for side, tr in (("c", p.tc), ("s", p.ts)):
            insts, _ = cm.ledger(ev, side)
            for inst in insts:
                automaton(ctx, inst, tr, case, final, [a for a in ev if a.get("kind") == "api" and a["side"] == side])
        return True
    finally:
        p.close()


def run_peer_first(ctx, case, rng):
    """The peer closes first; the local application never half-closes and only acts after both CLOSEs were exchanged."""
    p = pair.Pair(rng=rng)
    cm.watch(p.tc, p.rec, "c")
    cm.watch(p.ts, p.rec, "s")
    try:
        if not p.start() or not p.auth():
            ctx.inconclusive("handshake failed (peer closes first)")
            return
        cm.diverge_ids(p, rng)
        c, s = p.session()
        role = case["role"]
        x, y = (c, s) if role == "c" else (s, c)
        yside = "s" if role == "c" else "c"
        if case["data"]:
            y.send(b"\x66" * case["data"])
        if case["peer_eof_first"]:
            do_op(y, "shutdown_write", 0, p.rec, yside)
        do_op(y, "close", 0, p.rec, yside)
        released = pair.wait_for(lambda: p.tc._channels.get(c.get_id()) is None and p.ts._channels.get(s.get_id()) is None
                                 and p.link.quiescent(0.02), 10, 0.003)
        if not released:
            ctx.inconclusive("channel not released after the peer's close")
            return
        if x.eof_sent and x.closed:
            ctx.count("local_side_closed_by_peer_only")
        ev = p.rec.snapshot()
        insts = {side: cm.ledger(ev, side)[0][-1] for side in "cs"}
        released_ops(ctx, p, x, role, insts[role], case)  # judges each operation's own messages
        for side, tr in (("c", p.tc), ("s", p.ts)):
            for inst in cm.ledger(ev, side)[0]:
                automaton(ctx, inst, tr, case, True, [a for a in ev if a.get("kind") == "api" and a["side"] == side])
        ctx.count("peer_closed_first_cases")
        return True
    finally:
        p.close()


def run_bare_close(ctx, case, rng):
    """A hostile peer sends CHANNEL_CLOSE without EOF while more than a tenth of the window is unread; the victim
    application then drains both streams.  Nothing may be sent for the released channel."""
    from vf.attacker import Attacker
    role = case["role"]
    a = Attacker(role=role, rng=rng, victim_kw=dict(default_window_size=32768))
    cm.watch(a.victim, a.rec, "v")
    holder = {}
    try:
        if not a.start(auth=True):
            ctx.inconclusive("attacker handshake failed (bare close)")
            return
        a.takeover()
        aid = 9090
        if role == "client":
            a.send(cm.OPEN, "session", aid, 1 << 20, 32768)
            r = a.wait_inbox(lambda e: e["type"] == cm.OPEN_OK, 20)
            if r is None:
                ctx.inconclusive("no confirmation (bare close)")
                return
            vid = cm.parse(bytes([cm.OPEN_OK]) + r["payload"])["sender"]
            vchan = a.victim.accept(20)
        else:
            th = threading.Thread(target=lambda: holder.__setitem__("chan", a.victim.open_session(window_size=32768, timeout=30)),
                                  daemon=True)
            th.start()
            r = a.wait_inbox(lambda e: e["type"] == cm.OPEN, 20)
            if r is None:
                ctx.inconclusive("no CHANNEL_OPEN (bare close)")
                return
            vid = cm.parse(bytes([cm.OPEN]) + r["payload"])["sender"]
            a.send(cm.OPEN_OK, vid, aid, 1 << 20, 32768)
            th.join(30)
            vchan = holder.get("chan")
        if vchan is None:
            ctx.inconclusive("no victim channel (bare close)")
            return
        a.send(cm.DATA, vid, b"\x10" * case["n_out"])
        if case["n_err"]:
            a.send(cm.EXT, vid, 1, b"\x90" * case["n_err"])
        if case["eof_first"]:
            a.send(cm.EOF, vid)
        mark = a.inbox_mark()
        a.send(cm.CLOSE, vid)  # no EOF before it in the bare variant
        if a.wait_inbox(lambda e: e["type"] == cm.CLOSE, 20, mark) is None:
            ctx.inconclusive("victim did not answer the CLOSE")
            return
        ctx.count("bare_closes_answered" if not case["eof_first"] else "closes_after_eof_answered")
        # the application drains what was buffered (crossing the 10 % threshold)
        vchan.settimeout(5)
        got = 0
        for fn in (vchan.recv, vchan.recv_stderr):
            while True:
                b = do_op_read(fn, rng.randint(1, 4000), a.rec)
                if not b:
                    break
                got += b
        ctx.count("bytes_drained_after_release", got)
        if got > 32768 // 10:
            ctx.count("drains_crossing_adjust_threshold")
        if not a.probe_alive(30):
            ctx.inconclusive("victim stopped answering (bare close)")
            return
        pair.wait_for(lambda: a.link.quiescent(0.05), 5)
        ev = a.rec.snapshot()
        for inst in cm.ledger(ev, "v")[0]:
            automaton(ctx, inst, a.victim, case, True, [x for x in ev if x.get("kind") == "api" and x["side"] == "v"])
        ctx.count("bare_close_cases")
        return True
    finally:
        a.close()


def do_op_read(fn, n, rec):
    rec.add(kind="api", side="v", op=fn.__name__, phase="call", thread=threading.get_ident())
    try:
        return len(fn(n))
    except Exception:
        return 0
    finally:
        rec.add(kind="api", side="v", op=fn.__name__, phase="ret", thread=threading.get_ident())


def run_burst_case(ctx, case, rng):
    """One send()/sendall()/send_stderr() call with a payload of several max-packet chunks on a slow sender, while another
    thread (or the peer's CLOSE) ends the stream after the first packet of that call went out and before the last."""
    role = case["role"]

    def on_send(tap, ptype, raw):
        if ptype in (cm.DATA, cm.EXT):
            time.sleep(case["gap"])  # a slow link: the burst stays in progress

    p = pair.Pair(rng=rng, on_send={role: on_send})
    cm.watch(p.tc, p.rec, "c")
    cm.watch(p.ts, p.rec, "s")
    try:
        if not p.start() or not p.auth():
            ctx.inconclusive("handshake failed (burst)")
            return
        cm.diverge_ids(p, rng)
        c, s = p.session()
        x, y = (c, s) if role == "c" else (s, c)
        yside = "s" if role == "c" else "c"
        rd = cm.PollReader(y, rng.getrandbits(32), 65536).start()
        payload = b"\x6b" * (case["packets"] * (x.out_max_packet_size - 64))
        n0 = len(p.msgs(role, "out", (cm.DATA, cm.EXT)))
        t = threading.Thread(target=lambda: do_op_payload(x, case["api"], payload, p.rec, role), daemon=True)
        t.start()
        if not pair.wait_for(lambda: len(p.msgs(role, "out", (cm.DATA, cm.EXT))) > n0, 20, 0.0005):
            ctx.inconclusive("first packet of the burst not seen")
            rd.stop()
            return
        if case["ender"] == "peer_close":
            do_op(y, "close", 0, p.rec, yside)
        else:
            do_op(x, case["ender"], 0, p.rec, role)
        t.join(60)
        rd.stop()
        if t.is_alive():
            ctx.inconclusive("burst call did not return")
            return
        sent = len(p.msgs(role, "out", (cm.DATA, cm.EXT))) - n0
        ctx.count("burst_cases")
        if 1 <= sent < case["packets"]:
            ctx.count("bursts_cut_short_by_end_of_stream")
        do_op(x, "close", 0, p.rec, role)
        do_op(y, "close", 0, p.rec, yside)
        released = pair.wait_for(lambda: p.tc._channels.get(c.get_id()) is None and p.ts._channels.get(s.get_id()) is None
                                 and p.link.quiescent(0.02), 5, 0.003)
        final = released or p.wait_quiet(ctx.pick(3.0, 6.0), 30)
        ev = p.rec.snapshot()
        for side, tr in (("c", p.tc), ("s", p.ts)):
            for inst in cm.ledger(ev, side)[0]:
                automaton(ctx, inst, tr, case, final, [a for a in ev if a.get("kind") == "api" and a["side"] == side])
        return True
    finally:
        p.close()


def do_op_payload(chan, api, payload, rec, side):
    rec.add(kind="api", side=side, op=api, phase="call", thread=threading.get_ident())
    try:
        res = getattr(chan, api)(payload)
    except Exception as e:
        res = "raise:" + type(e).__name__
    rec.add(kind="api", side=side, op=api, phase="ret", res=res, thread=threading.get_ident())


REQ_KINDS = ("exec", "shell", "pty", "x11", "subsystem")


def run_pending_case(ctx, case, rng):
    """A want-reply channel request is pending (the peer's answer waits behind a held link direction), a local thread
    calls close(), and the peer's SUCCESS/FAILURE arrives before the peer's CLOSE (or the answer first, then close)."""
    role = case["role"]
    p = pair.Pair(rng=rng)
    ans = case["answer"] == "success"
    p.server.policy.update(check_channel_exec_request=ans, check_channel_shell_request=ans, check_channel_pty_request=ans,
                           check_channel_x11_request=ans)
    cm.watch(p.tc, p.rec, "c")
    cm.watch(p.ts, p.rec, "s")
    try:
        if not p.start() or not p.auth():
            ctx.inconclusive("handshake failed (pending request)")
            return
        cm.diverge_ids(p, rng)
        c, s = p.session()
        if s is None:
            ctx.inconclusive("no server channel (pending request)")
            return
        x, y = (c, s) if role == "c" else (s, c)
        yside = "s" if role == "c" else "c"
        to_x = p.link.ba if role == "c" else p.link.ab
        to_x.hold()
        out = {}

        def requester():
            p.rec.add(kind="api", side=role, op="request:" + case["req"], phase="call", thread=threading.get_ident())
            try:
                k = case["req"]
                if k == "exec":
                    x.exec_command("true")
                elif k == "shell":
                    x.invoke_shell()
                elif k == "pty":
                    x.get_pty()
                elif k == "x11":
                    x.request_x11()
                else:
                    x.invoke_subsystem("nosuch")
                out["res"] = "ok"
            except Exception as e:
                out["res"] = "raise:" + type(e).__name__
            p.rec.add(kind="api", side=role, op="request:" + case["req"], phase="ret", res=out["res"], thread=threading.get_ident())

        t = threading.Thread(target=requester, daemon=True)
        t.start()
        if not pair.wait_for(lambda: len(p.msgs(role, "out", (cm.REQUEST,))) > 0 and to_x.held, 20, 0.002):
            to_x.release()
            ctx.inconclusive("request or its answer not observed (pending request)")
            return
        ctx.count("requests_pending_with_answer_held")
        if case["order"] == "close_before_answer":
            do_op(x, "close", 0, p.rec, role)
            to_x.release()
            t.join(30)
        else:
            to_x.release()
            t.join(30)
            do_op(x, "close", 0, p.rec, role)
        if t.is_alive():
            ctx.inconclusive("pending request call did not return")
            return
        do_op(y, "close", 0, p.rec, yside)
        released = pair.wait_for(lambda: p.tc._channels.get(c.get_id()) is None and p.ts._channels.get(s.get_id()) is None
                                 and p.link.quiescent(0.02), 5, 0.003)
        final = released or p.wait_quiet(ctx.pick(3.0, 6.0), 30)
        ev = p.rec.snapshot()
        closes = [e["n"] for e in p.msgs(role, "out", (cm.CLOSE,))]
        answers = [e for e in p.msgs(role, "in", (cm.SUCCESS, cm.FAILURE))]
        if answers and closes and answers[0]["n"] > closes[0]:
            ctx.count("answers_read_after_own_close")
        if answers and answers[0]["type"] == cm.FAILURE:
            ctx.count("request_failures_read")
        elif answers:
            ctx.count("request_successes_read")
        for side, tr in (("c", p.tc), ("s", p.ts)):
            insts, _ = cm.ledger(ev, side)
            for inst in insts:
                automaton(ctx, inst, tr, case, final, [a for a in ev if a.get("kind") == "api" and a["side"] == side])
        ctx.count("pending_request_cases")
        return True
    finally:
        p.close()


def do_op_exec(chan, rec, side):
    rec.add(kind="api", side=side, op="exec_command", phase="call", thread=threading.get_ident())
    try:
        chan.exec_command("true")
        res = "ok"
    except Exception as e:
        res = "raise:" + type(e).__name__
    rec.add(kind="api", side=side, op="exec_command", phase="ret", res=res, thread=threading.get_ident())


def run(ctx):
    cm.install()
    rng = ctx.rng
    for i in range(ctx.pick(4, 30)):
        j = i * ctx.nshards + ctx.shard
        case = dict(kind="parked-writer-then-end-then-adjust", role="cs"[j % 2], ender=("shutdown_write", "close")[j // 2 % 2],
                    api=("send", "send_stderr", "sendall")[j // 4 % 3], size=(1, 100, 40000)[j % 3])
        r = ctx.guard(run_parked_case, ctx, case, rng)
        ctx.case(("c22-parked", repr(case)), sample=case if i == 0 else None, nontrivial=bool(r))
    for i in range(ctx.pick(5, 40)):
        j = i * ctx.nshards + ctx.shard
        case = dict(kind="multi-packet-call-vs-end-of-stream", role="cs"[j % 2],
                    api=("sendall", "send", "sendall_stderr", "send_stderr")[j // 2 % 4],
                    ender=("shutdown_write", "close", "peer_close", "shutdown2")[j // 8 % 4], packets=(6, 3, 10)[j % 3],
                    gap=(0.002, 0.006)[j // 4 % 2])
        r = ctx.guard(run_burst_case, ctx, case, rng)
        ctx.case(("c22-burst", repr(case), i), sample=case if i == 0 else None, nontrivial=bool(r))
    for i in range(ctx.pick(4, 30)):
        j = i * ctx.nshards + ctx.shard
        case = dict(kind="peer-closes-first", role="cs"[j % 2], data=(0, 10, 5000)[j // 2 % 3], peer_eof_first=bool(j // 6 % 2))
        r = ctx.guard(run_peer_first, ctx, case, rng)
        ctx.case(("c22-peerfirst", repr(case), i), sample=case if i == 0 else None, nontrivial=bool(r))
    for i in range(ctx.pick(4, 30)):
        j = i * ctx.nshards + ctx.shard
        case = dict(kind="bare-close-then-drain", role=("client", "server")[j % 2], eof_first=j % 4 == 3,
                    n_out=(3300, 5000, 20000)[j // 2 % 3], n_err=(0, 3300, 9000)[j // 4 % 3])
        r = ctx.guard(run_bare_close, ctx, case, rng)
        ctx.case(("c22-bareclose", repr(case), i), sample=case if i == 0 else None, nontrivial=bool(r))
    for i in range(ctx.pick(5, 40)):
        j = i * ctx.nshards + ctx.shard
        role = "cs"[j % 2]
        case = dict(kind="pending-request-vs-close", role=role, req=REQ_KINDS[j // 2 % 5],
                    answer=("failure", "success")[j // 10 % 2] if role == "c" and REQ_KINDS[j // 2 % 5] != "subsystem" else "failure",
                    order=("close_before_answer", "close_after_answer")[j // 4 % 2])
        r = ctx.guard(run_pending_case, ctx, case, rng)
        ctx.case(("c22-pending", repr(case), i), sample=case if i == 0 else None, nontrivial=bool(r))
    for i in range(ctx.pick(6, 40)):
        case = gen_kex_case(rng, i * ctx.nshards + ctx.shard)
        r = ctx.guard(run_kex_case, ctx, case, rng)
        ctx.case(("c22-kex", repr(case)), sample=case if i == 0 else None, nontrivial=bool(r))
    n = ctx.pick(20, 300)
    dl = ctx.deadline(30, 400)
    for i in range(n):
        if time.time() > dl:
            break
        case = gen_case(rng, i)
        r = ctx.guard(run_case, ctx, case, rng)
        ctx.case(("c22", repr(case)), sample=case if i in (0, 5, 3) else None,
                 nontrivial=bool(r and (r["eof_out"] or r["close_out"])))
    ctx.require("channel_sides_judged", 150)
    ctx.require("eof_sent", 100)
    ctx.require("close_sent", 150)
    ctx.require("peer_close_read", 150)
    ctx.require("both_closes_exchanged", 150)
    ctx.require("released_channel_ops", 500)
    ctx.require("data_msgs_seen", 200)
    ctx.require("cases_with_end_during_send", 15)
    ctx.require("closes_handled_during_kex", 20)
    ctx.require("idle_rekeys_after_close", 40)
    ctx.require("kex_cases_run", 30)
    ctx.require("parked_writer_cases", 24)
    ctx.require("pending_request_cases", 30)
    ctx.require("burst_cases", 30)
    ctx.require("bursts_cut_short_by_end_of_stream", 8)
    ctx.require("peer_closed_first_cases", 24)
    ctx.require("local_side_closed_by_peer_only", 24)
    ctx.require("bare_close_cases", 24)
    ctx.require("bare_closes_answered", 16)
    ctx.require("drains_crossing_adjust_threshold", 20)
    ctx.require("answers_read_after_own_close", 10)
    ctx.require("request_failures_read", 15)
    ctx.require("adjust_processed_before_writer_reacquired_lock", 20)
