"""C33 — SFTP file attributes survive encoding and decoding."""
import shutil
import struct
import tempfile
import threading

from paramiko import SFTPAttributes, SFTP_NO_SUCH_FILE, SFTP_OK
from paramiko.message import Message
from paramiko.sftp import CMD_SETSTAT

from vf import gacontract
from vf.core import exc_signature

META = dict(
    title="SFTP attributes survive encode/decode",
    level="exploration",
    design_ref="§3 C33",
    technique="runtime contracts (icontract) on the real SFTPAttributes._pack/_unpack against an independent "
              "struct-based ATTRS encoder/decoder, plus a field-by-field round-trip oracle; a sample runs through "
              "a real SFTPClient/SFTPServer session",
    text="All 32 present/absent combinations x boundary values are enumerated, then random attribute sets "
         "(64-bit sizes, 32-bit ids/modes/times, extended maps of bytes->bytes) are packed with the real _pack, "
         "compared byte-for-byte with a reference encoding (so the flags word is judged on the wire), unpacked "
         "with the real _unpack and compared field by field (absent stays None, _flags == present groups). "
         "Reuse histories drive ONE object through random set-field / clear-field / pack / decode-into-fresh / "
         "from_stat steps with a reference model of the fields present now; every pack's flags word, bytes and "
         "decode are compared (no stale flag bit after a field was removed, none missing after one was added). "
         "Formatting calls (str, asbytes, repr, _debug_str, Message.add_string) are inserted before half of the "
         "single-shot packs (bytes compared with an unformatted twin) and as a history step: they must not change "
         "any field. Directory listings whose entries lack uid/gid (or other groups) are fetched through a real "
         "SFTP session - the server formats each entry's longname and then packs it - and must arrive unchanged. "
         "The same contracts stay installed while attribute sets travel through a real SFTP SETSTAT/STAT "
         "exchange. Holds on the executions produced, not for all inputs.",
    note="Trusts struct and the SFTP v3 ATTRS layout (draft-ietf-secsh-filexfer-02 §5). uid/gid and atime/mtime "
         "are one wire field each and are generated as pairs; times are integers; extended maps are bytes->bytes "
         "(str maps are compared in UTF-8 encoded form because the wire has no text type).",
    rule="case = one attribute set (presence bits + values + extended map) with a random prefix/trailer around "
         "the ATTRS block, or one reuse history (operation list on a single object); distinct = hash of the set; trivial (not counted) = nothing",
    assumptions=["SFTP v3 ATTRS layout: flags u32, size u64, uid u32 gid u32, perms u32, atime u32 mtime u32, "
                 "count u32 + (string,string)*"],
)

F_SIZE, F_UIDGID, F_PERM, F_AMTIME, F_EXT = 1, 2, 4, 8, 0x80000000


def shards(tier):
    return 4 if tier == "quick" else 16

SKIP = [0]  # shard s leaves out the samples of its first SKIP strata, so that evidence shows every stratum



# generous per-shard caps: expiry means INCONCLUSIVE, never a verdict (the box is shared and can be 10x slow)
TIMEOUT = {"quick": 900, "thorough": 3000}


# --------------------------------------------------------------------------
# independent reference codec (struct only; never calls paramiko)
# --------------------------------------------------------------------------
def _s(b):
    return struct.pack(">I", len(b)) + b


def _tobytes(x):
    return x.encode("utf-8") if isinstance(x, str) else bytes(x)


def ref_flags(size, uidgid, mode, amtime, ext):
    f = 0
    if size is not None:
        f |= F_SIZE
    if uidgid is not None:
        f |= F_UIDGID
    if mode is not None:
        f |= F_PERM
    if amtime is not None:
        f |= F_AMTIME
    if ext:
        f |= F_EXT
    return f


def ref_encode(size, uidgid, mode, amtime, ext):
    """ext: list of (key, value) in the order they are expected on the wire."""
    out = struct.pack(">I", ref_flags(size, uidgid, mode, amtime, ext))
    if size is not None:
        out += struct.pack(">Q", size)
    if uidgid is not None:
        out += struct.pack(">II", *uidgid)
    if mode is not None:
        out += struct.pack(">I", mode)
    if amtime is not None:
        out += struct.pack(">II", *amtime)
    if ext:
        out += struct.pack(">I", len(ext))
        for k, v in ext:
            out += _s(_tobytes(k)) + _s(_tobytes(v))
    return out


def ref_decode(data):
    """-> (fields dict, consumed) reading an ATTRS block at the start of data."""
    pos = 0

    def take(fmt):
        nonlocal pos
        n = struct.calcsize(fmt)
        v = struct.unpack(fmt, data[pos:pos + n])
        pos += n
        return v

    def take_s():
        nonlocal pos
        (n,) = take(">I")
        v = data[pos:pos + n]
        if len(v) != n:
            raise struct.error("short string")
        pos += n
        return bytes(v)

    (flags,) = take(">I")
    d = dict(flags=flags, size=None, uidgid=None, mode=None, amtime=None, ext={})
    if flags & F_SIZE:
        (d["size"],) = take(">Q")
    if flags & F_UIDGID:
        d["uidgid"] = take(">II")
    if flags & F_PERM:
        (d["mode"],) = take(">I")
    if flags & F_AMTIME:
        d["amtime"] = take(">II")
    if flags & F_EXT:
        (n,) = take(">I")
        for _ in range(n):
            k = take_s()
            v = take_s()
            d["ext"][k] = v
    return d, pos


def obj_fields(a):
    """Read an SFTPAttributes object's public fields into the reference shape."""
    uidgid = (a.st_uid, a.st_gid) if (a.st_uid is not None and a.st_gid is not None) else None
    amtime = (a.st_atime, a.st_mtime) if (a.st_atime is not None and a.st_mtime is not None) else None
    return dict(size=a.st_size, uidgid=uidgid, mode=a.st_mode, amtime=amtime,
                ext=[(k, v) for k, v in a.attr.items()])


# --------------------------------------------------------------------------
# contract recorder + named conditions
# --------------------------------------------------------------------------
class Recorder:
    def __init__(self):
        self.lock = threading.Lock()
        self.evals = {}
        self.fails = []

    def seen(self, name):
        with self.lock:
            self.evals[name] = self.evals.get(name, 0) + 1

    def fail(self, sig, what, witness):
        with self.lock:
            self.fails.append((sig, what, witness))

    def drain(self, ctx):
        with self.lock:
            fails, self.fails = self.fails, []
            evals, self.evals = self.evals, {}
        for k, v in evals.items():
            ctx.count("contract_" + k, v)
        for sig, what, wit in fails:
            ctx.violation(sig, what, wit)
        return len(fails)


REC = Recorder()
QUIET = [False]  # inside the SFTP session a breach is recorded but not raised (it would kill the server thread)


def _ext_bytes(pairs):
    return {_tobytes(k): _tobytes(v) for k, v in pairs}


def classify_ext(want, got):
    """want/got: dicts bytes->bytes. Names the way the extended map differs."""
    if got == want:
        return None
    if got == {v: k for k, v in want.items()}:
        return "extended attribute decoded with key and value swapped"
    if set(got) == set(want):
        return "extended attribute value changed by round-trip"
    return "extended attribute set changed by round-trip"


def pack_appends_reference_encoding(self, msg, OLD):
    REC.seen("pack_appends_reference_encoding")
    f = obj_fields(self)
    try:
        want = ref_encode(f["size"], f["uidgid"], f["mode"], _int_pair(f["amtime"]), f["ext"])
    except (struct.error, TypeError, ValueError):
        return True  # values outside the wire ranges: not this property's domain
    got = msg.asbytes()[OLD.before:]
    if got == want:
        return True
    if got[:4] != want[:4]:
        sig = "flags word written by _pack differs from the present field groups"
    elif len(got) != len(want):
        sig = "_pack wrote a block of the wrong length"
    else:
        sig = "_pack wrote different field bytes than the reference encoding"
    REC.fail(sig, "SFTPAttributes._pack output differs from the SFTP v3 ATTRS encoding of the object's fields",
             dict(fields=f, got=got, want=want))
    return QUIET[0]


def pack_sets_flags_to_present_groups(self):
    REC.seen("pack_sets_flags_to_present_groups")
    f = obj_fields(self)
    want = ref_flags(f["size"], f["uidgid"], f["mode"], f["amtime"], f["ext"])
    if self._flags == want:
        return True
    REC.fail("_flags after _pack differs from the present field groups",
             "after _pack the object's _flags is not exactly the set of present groups",
             dict(fields=f, flags=self._flags, want=want))
    return QUIET[0]


def _int_pair(p):
    return None if p is None else (int(p[0]), int(p[1]))


def unpack_matches_reference_decoder(self, msg, OLD):
    REC.seen("unpack_matches_reference_decoder")
    if not OLD.fresh:
        return True  # decoding into a pre-populated object is not what _from_msg does
    try:
        want, used = ref_decode(OLD.rem)
    except struct.error:
        return True  # truncated block: nothing to compare
    ok = True
    got = obj_fields(self)
    for name in ("size", "uidgid", "mode", "amtime"):
        if got[name] != want[name]:
            ok = False
            if want[name] is None:
                sig = "absent field present after _unpack (%s)" % name
            else:
                sig = "field changed by _unpack (%s)" % name
            REC.fail(sig, "decoded %s differs from the value on the wire" % name,
                     dict(wire=OLD.rem[:used], got=got, want=want))
    ge = _ext_bytes(got["ext"])
    cls = classify_ext(want["ext"], ge)
    if cls is not None:
        ok = False
        REC.fail(cls, "decoded extended attributes differ from the pairs on the wire",
                 dict(wire=OLD.rem[:used], got=sorted(ge.items()), want=sorted(want["ext"].items())))
    if self._flags != want["flags"]:
        ok = False
        REC.fail("_flags after _unpack differs from the flags word on the wire", "flags mismatch",
                 dict(wire=OLD.rem[:used], flags=self._flags))
    if msg.get_remainder() != OLD.rem[used:]:
        ok = False
        REC.fail("_unpack consumed the wrong number of bytes",
                 "the read position after _unpack is not the end of the ATTRS block",
                 dict(wire=OLD.rem[:used + 8], used=used, left=len(msg.get_remainder())))
    return ok or QUIET[0]


def _is_fresh(self):
    return (self.st_size is None and self.st_uid is None and self.st_gid is None and self.st_mode is None
            and self.st_atime is None and self.st_mtime is None and not self.attr)


_installed = False


def install_contracts():
    global _installed
    if _installed:
        return
    SFTPAttributes._pack = gacontract.ensure_all(
        SFTPAttributes._pack,
        [pack_appends_reference_encoding, pack_sets_flags_to_present_groups],
        snapshots={"before": lambda msg: len(msg.asbytes())},
    )
    SFTPAttributes._unpack = gacontract.ensure_all(
        SFTPAttributes._unpack,
        [unpack_matches_reference_decoder],
        snapshots={"rem": lambda msg: msg.get_remainder(), "fresh": lambda self: _is_fresh(self)},
    )
    _installed = True


# --------------------------------------------------------------------------
# generators
# --------------------------------------------------------------------------
U32 = [0, 1, 2, 0x7F, 0x80, 0xFF, 0x100, 0o644, 0o100644, 0o40755, 0xFFFF, 0x10000, 0x7FFFFFFF, 0x80000000,
       0xFEFFFFFF, 0xFF000000, 0xFF000001, 0xFFFFFFFE, 0xFFFFFFFF]
U64 = U32 + [0x100000000, 0x100000001, 0x7FFFFFFFFFFFFFFF, 0x8000000000000000, 0xFF00000000000000,
             0xFFFFFFFFFFFFFFFE, 0xFFFFFFFFFFFFFFFF]


def r32(rng):
    return rng.choice(U32) if rng.random() < 0.4 else rng.getrandbits(rng.choice([8, 16, 31, 32]))


def r64(rng):
    return rng.choice(U64) if rng.random() < 0.4 else rng.getrandbits(rng.choice([8, 31, 32, 33, 63, 64]))


def rbytes(rng, maxlen):
    n = rng.choice([0, 1, 2, rng.randint(0, maxlen)])
    return bytes(rng.getrandbits(8) for _ in range(n))


EXT_NAMES = [b"statvfs@openssh.com", b"user.mime", b"acl@vendor", b"x", b"", b"\x00", b"\xff\xfe", b"k@e.y"]


def rext(rng, force=False):
    k = rng.choice([1, 1, 2, 3, 6]) if (force or rng.random() < 0.6) else 0
    d = {}
    as_text = rng.random() < 0.1
    for _ in range(k):
        if as_text:
            key = "".join(rng.choice("abc@.é中") for _ in range(rng.randint(0, 8)))
            val = "".join(rng.choice("xyz 09é") for _ in range(rng.randint(0, 8)))
        else:
            key = rng.choice(EXT_NAMES) if rng.random() < 0.5 else rbytes(rng, 24)
            val = key if rng.random() < 0.05 else rbytes(rng, 40)
        d[key] = val
    return d


def make_spec(rng, bits=None):
    if bits is None:
        bits = rng.getrandbits(5)
    return dict(
        size=r64(rng) if bits & 1 else None,
        uidgid=(r32(rng), r32(rng)) if bits & 2 else None,
        mode=r32(rng) if bits & 4 else None,
        amtime=(r32(rng), r32(rng)) if bits & 8 else None,
        ext=rext(rng, force=True) if bits & 16 else {},
    )


def build(spec):
    a = SFTPAttributes()
    a.st_size = spec["size"]
    if spec["uidgid"] is not None:
        a.st_uid, a.st_gid = spec["uidgid"]
    a.st_mode = spec["mode"]
    if spec["amtime"] is not None:
        a.st_atime, a.st_mtime = spec["amtime"]
    a.attr = dict(spec["ext"])
    return a


def compare_decoded(ctx, spec, back, where):
    """Field-by-field round-trip oracle (independent of the contracts)."""
    ctx.count("roundtrips_compared")
    got = obj_fields(back)
    ok = True
    for name in ("size", "uidgid", "mode", "amtime"):
        if got[name] != spec[name]:
            ok = False
            if spec[name] is None:
                sig = "absent field present after round-trip (%s)" % name
            elif got[name] is None:
                sig = "present field absent after round-trip (%s)" % name
            else:
                sig = "field changed by round-trip (%s)" % name
            ctx.violation(sig, "%s: %s was %r, decoded as %r" % (where, name, spec[name], got[name]),
                          dict(where=where, spec=spec, got=got))
    cls = classify_ext(_ext_bytes(spec["ext"].items()), _ext_bytes(got["ext"]))
    if cls is not None:
        ok = False
        ctx.violation(cls, "%s: extended attributes sent %r came back %r"
                      % (where, sorted(_ext_bytes(spec["ext"].items()).items())[:3],
                         sorted(_ext_bytes(got["ext"]).items())[:3]),
                      dict(where=where, spec=spec, got=got))
    want_flags = ref_flags(spec["size"], spec["uidgid"], spec["mode"], spec["amtime"], spec["ext"])
    if back._flags != want_flags:
        ok = False
        ctx.violation("decoded flags differ from the present field groups",
                      "%s: _flags=%#x, present groups=%#x" % (where, back._flags, want_flags),
                      dict(where=where, spec=spec, flags=back._flags))
    return ok


# --------------------------------------------------------------------------
# observers: formatting an attribute block must not change what is encoded
# --------------------------------------------------------------------------
OBSERVERS = {
    "str": lambda a: str(a),
    "asbytes": lambda a: a.asbytes(),
    "repr": lambda a: repr(a),
    "_debug_str": lambda a: a._debug_str(),
    "Message.add_string": lambda a: Message().add_string(a),
}


def observe(ctx, rng, obj, where, wit):
    """Apply 1-3 formatting calls; judge that the object's fields are what they were. Returns the names used
    (None when a field changed: the caller stops). An exception *from formatting* is counted, not judged
    (what __str__ accepts is not this property)."""
    used = []
    for name in rng.sample(sorted(OBSERVERS), rng.randint(1, 3)):
        before = (obj_fields(obj), obj.st_uid, obj.st_gid, obj.st_atime, obj.st_mtime)
        try:
            OBSERVERS[name](obj)
        except gacontract.Breach:
            raise
        except Exception:
            ctx.count("observer_calls_that_raised")
            continue
        used.append(name)
        ctx.count("observer_calls")
        after = (obj_fields(obj), obj.st_uid, obj.st_gid, obj.st_atime, obj.st_mtime)
        if after != before:
            changed = [g for g in ("size", "uidgid", "mode", "amtime", "ext") if before[0][g] != after[0][g]] or ["half of a pair"]
            became = "an absent group became present" if any(
                (before[0][g] is None or before[0][g] == []) and after[0][g] not in (None, []) for g in changed if g in before[0]) \
                else "a field changed"
            ctx.violation("formatting the object mutated it: %s (%s)" % (became, "/".join(changed)),
                          "%s: fields before %r, after %r" % (where, before[0], after[0]), dict(wit, observer=name))
            return None
    return used


def one_case(ctx, rng, spec):
    prefix = rbytes(rng, 12)
    trailer = rbytes(rng, 12)
    a = build(spec)
    formatted = None
    if rng.random() < 0.5:
        # format the object between construction and encoding; a twin that is never formatted is the control
        formatted = observe(ctx, rng, a, "before a single-shot pack", dict(spec=spec))
        if formatted is None:
            return
    m = Message()
    m.add_bytes(prefix)
    try:
        a._pack(m)
        if formatted:
            twin = Message()
            twin.add_bytes(prefix)
            build(spec)._pack(twin)
    except gacontract.Breach:
        REC.drain(ctx)
        return
    except Exception as e:
        ctx.violation("exception from _pack: " + exc_signature(e), repr(e)[:200], dict(spec=spec))
        return
    wire = m.asbytes()
    if formatted:
        ctx.count("packs_compared_with_and_without_formatting")
        if twin.asbytes() != wire:
            kind = "flags differ" if twin.asbytes()[len(prefix):len(prefix) + 4] != wire[len(prefix):len(prefix) + 4] else "fields differ"
            ctx.violation("an object formatted before packing encodes differently from an unformatted twin (%s)" % kind,
                          "after %s: %s, twin: %s" % ("+".join(formatted), wire[len(prefix):][:24].hex(),
                                                     twin.asbytes()[len(prefix):][:24].hex()),
                          dict(spec=spec, observers=formatted))
            return
    want = prefix + ref_encode(spec["size"], spec["uidgid"], spec["mode"], spec["amtime"],
                               list(spec["ext"].items()))
    ctx.count("encodings_compared")
    if wire != want:
        blk, ref = wire[len(prefix):], want[len(prefix):]
        if blk[:4] != ref[:4]:
            sig = "flags word on the wire differs from the present field groups"
        else:
            sig = "encoded bytes differ from the reference encoding"
        ctx.violation(sig, "_pack wrote %s, reference is %s" % (blk[:40].hex(), ref[:40].hex()),
                      dict(spec=spec, got=blk, want=ref))
    r = Message(wire + trailer)
    r.get_bytes(len(prefix))
    try:
        if rng.random() < 0.5:
            back = SFTPAttributes._from_msg(r)
        else:
            back = SFTPAttributes._from_msg(r, filename="f", longname="l")
    except gacontract.Breach:
        back = None
    except Exception as e:
        ctx.violation("exception from _unpack: " + exc_signature(e), repr(e)[:200], dict(spec=spec))
        REC.drain(ctx)
        return
    REC.drain(ctx)
    if back is None:
        return
    compare_decoded(ctx, spec, back, "direct")
    if r.get_remainder() != trailer:
        ctx.violation("decode left the read position off the end of the ATTRS block",
                      "bytes after the ATTRS block were consumed or block bytes left over", dict(spec=spec))


# --------------------------------------------------------------------------
# histories: ONE object reused across several encodes / decodes
# --------------------------------------------------------------------------
class FakeStat:
    """os.stat-like object with integer times (what from_stat copies from)."""

    def __init__(self, rng):
        self.st_size = r64(rng)
        self.st_uid, self.st_gid = r32(rng), r32(rng)
        self.st_mode = r32(rng)
        self.st_atime, self.st_mtime = r32(rng), r32(rng)


GROUPS = ("size", "uidgid", "mode", "amtime", "ext")


def _set_group(rng, obj, model, g):
    if g == "size":
        model[g] = obj.st_size = r64(rng)
    elif g == "uidgid":
        model[g] = (r32(rng), r32(rng))
        obj.st_uid, obj.st_gid = model[g]
    elif g == "mode":
        model[g] = obj.st_mode = r32(rng)
    elif g == "amtime":
        model[g] = (r32(rng), r32(rng))
        obj.st_atime, obj.st_mtime = model[g]
    else:
        k = rbytes(rng, 12) if rng.random() < 0.5 else rng.choice(EXT_NAMES)
        v = rbytes(rng, 20)
        obj.attr[k] = v
        model["ext"][k] = v


def _clear_group(rng, obj, model, g):
    if g == "size":
        model[g] = obj.st_size = None
    elif g == "uidgid":
        model[g] = None
        obj.st_uid = obj.st_gid = None
    elif g == "mode":
        model[g] = obj.st_mode = None
    elif g == "amtime":
        model[g] = None
        obj.st_atime = obj.st_mtime = None
    else:
        how = rng.random()
        if how < 0.4 and len(model["ext"]) > 1:  # drop one entry only: the group stays present
            k = rng.choice(list(model["ext"]))
            del obj.attr[k]
            del model["ext"][k]
            return False
        if how < 0.7:
            obj.attr.clear()
        else:
            obj.attr = {}
        model["ext"] = {}
    return True


def _present(model, g):
    return bool(model[g]) if g == "ext" else model[g] is not None


def history_case(ctx, rng, hi):
    """Random {set, clear, pack, decode-into-fresh, from_stat} sequence on the same object, with a reference
    model of the fields present *now*; every pack is compared (flags word + bytes + decode of those bytes)."""
    ops = []
    origin = rng.choice(["new", "new", "from_stat", "decoded"])
    removed = added = False

    def fresh(kind):
        if kind == "from_stat":
            st = FakeStat(rng)
            o = SFTPAttributes.from_stat(st, filename="f" if rng.random() < 0.5 else None)
            m = dict(size=st.st_size, uidgid=(st.st_uid, st.st_gid), mode=st.st_mode,
                     amtime=(st.st_atime, st.st_mtime), ext={})
        elif kind == "decoded":
            m = make_spec(rng)
            m["ext"] = dict(_ext_bytes(m["ext"].items()))
            # decode the real encoder's own bytes (already judged against the reference by the direct stratum):
            # feeding reference bytes to a decoder that disagrees about the layout can make it read a huge
            # extended count and spin for hours - a harness hazard, not this property
            w = Message()
            build(m)._pack(w)
            o = SFTPAttributes._from_msg(Message(w.asbytes()))  # its _flags now holds what was on the wire
        else:
            o = SFTPAttributes()
            m = dict(size=None, uidgid=None, mode=None, amtime=None, ext={})
        ops.append(["start", kind, {g: _present(m, g) for g in GROUPS}])
        return o, m

    try:
        obj, model = fresh(origin)
    except gacontract.Breach:
        REC.drain(ctx)
        return
    packs = 0
    formatted_since_pack = False
    for step in range(rng.randint(3, 12)):
        r = rng.random()
        wit = dict(history=ops)
        if r < 0.30:
            g = rng.choice(GROUPS)
            was = _present(model, g)
            _set_group(rng, obj, model, g)
            ops.append(["set", g])
            if not was:
                added = True
        elif r < 0.58:
            have = [g for g in GROUPS if _present(model, g)]
            if not have:
                continue
            g = rng.choice(have)
            gone = _clear_group(rng, obj, model, g)
            ops.append(["clear" if gone else "drop-one-extended", g])
            if gone:
                removed = True
        elif r < 0.70 and r >= 0.64:
            used = observe(ctx, rng, obj, "history", wit)
            if used is None:
                return
            ops.append(["format"] + used)
            formatted_since_pack = True
        elif r < 0.64:
            try:
                obj, model = fresh(rng.choice(["from_stat", "decoded"]))
            except gacontract.Breach:
                REC.drain(ctx)
                return
            removed = added = False
        else:
            ops.append(["pack", {g: _present(model, g) for g in GROUPS}])
            m = Message()
            ctxword = ("after a field was removed" if removed else "after a field was added" if added
                       else "with unchanged field set")
            try:
                obj._pack(m)
            except gacontract.Breach:
                REC.drain(ctx)
                return
            except Exception as e:
                ctx.violation("exception from _pack on a reused object %s: %s" % (ctxword, exc_signature(e)),
                              repr(e)[:200], wit)
                return
            packs += 1
            ctx.count("history_packs")
            if formatted_since_pack:
                ctx.count("history_packs_after_a_format_step")
                formatted_since_pack = False
            if removed:
                ctx.count("packs_after_a_field_was_removed")
            if added:
                ctx.count("packs_after_a_field_was_added")
            if packs > 1:
                ctx.count("repeat_packs_of_the_same_object")
            wire = m.asbytes()
            want = ref_encode(model["size"], model["uidgid"], model["mode"], model["amtime"], list(model["ext"].items()))
            if wire != want:
                if wire[:4] != want[:4]:
                    stale = struct.unpack(">I", wire[:4])[0] & ~struct.unpack(">I", want[:4])[0] if len(wire) >= 4 else 0
                    sig = ("flags word of a reused object keeps a stale bit %s" % ctxword if stale
                           else "flags word of a reused object misses a present field %s" % ctxword)
                else:
                    sig = "reused object encodes different bytes than its current fields %s" % ctxword
                ctx.violation(sig, "_pack wrote %s, current fields encode as %s" % (wire[:24].hex(), want[:24].hex()),
                              dict(wit, got=wire, want=want))
                return
            want_flags = ref_flags(model["size"], model["uidgid"], model["mode"], model["amtime"], model["ext"])
            if obj._flags != want_flags:
                ctx.violation("_flags of a reused object differs from the fields present now %s" % ctxword,
                              "_flags=%#x, present=%#x" % (obj._flags, want_flags), wit)
                return
            try:
                back = SFTPAttributes._from_msg(Message(wire))
            except gacontract.Breach:
                REC.drain(ctx)
                return
            except Exception as e:
                ctx.violation("exception from _unpack: " + exc_signature(e), repr(e)[:200], wit)
                return
            if not compare_decoded(ctx, model, back, "history: decode of a reused object's encoding"):
                return
            removed = added = False
    REC.drain(ctx)
    ctx.case(("history", repr(ops)), sample=dict(kind="reuse history", ops=ops) if hi < 1 and SKIP[0] <= 1 else None,
             nontrivial=packs > 0)
    ctx.count("histories_run")


# --------------------------------------------------------------------------
# a sample through a real SFTP session (client packs -> server unpacks -> server packs -> client unpacks)
# --------------------------------------------------------------------------
def session_sample(ctx, rng, n):
    from vf.sftpbench import Bench, DirServer

    store = {}

    class AttrServer(DirServer):
        def chattr(self, path, attr):
            store[path] = attr
            return SFTP_OK

        def stat(self, path):
            return store.get(path, SFTP_NO_SUCH_FILE)

        def list_folder(self, path):
            return listing.get(path, SFTP_NO_SUCH_FILE)

    listing = {}
    root = tempfile.mkdtemp(prefix="vf-c33-")
    bench = None
    QUIET[0] = True
    try:
        bench = Bench(root, si_cls=AttrServer)
        for i in range(n):
            spec = make_spec(rng)
            path = "/p%d" % i
            ctx.case(("session", sorted((k, repr(v)) for k, v in spec.items())),
                     sample=dict(kind="via SFTP session", spec=spec) if i == 0 and SKIP[0] <= 2 else None)
            try:
                bench.client._request(CMD_SETSTAT, path, build(spec))
            except gacontract.Breach:
                REC.drain(ctx)
                continue
            srv = store.get(path)
            if srv is None:
                ctx.inconclusive("session sample: server never received SETSTAT for %s" % path)
                break
            ctx.count("session_server_decodes")
            compare_decoded(ctx, spec, srv, "session: server-side decode of SETSTAT")
            try:
                back = bench.client.stat(path)
            except gacontract.Breach:
                REC.drain(ctx)
                continue
            ctx.count("session_client_decodes")
            # the server re-encodes what *it* decoded; judge that hop on its own terms
            srv_spec = dict(obj_fields(srv), ext=dict(srv.attr))
            compare_decoded(ctx, srv_spec, back, "session: client-side decode of the STAT reply")
            REC.drain(ctx)
        # directory listings: the server formats every entry (longname = str(attr)) and THEN packs it
        for d in range(max(3, n // 10)):
            specs = []
            for j in range(rng.randint(1, 8)):
                spec = make_spec(rng)
                spec["ext"] = {}
                if j == 0:
                    spec["uidgid"] = None  # at least one entry without uid/gid per listing
                try:
                    str(build(spec))
                except Exception:
                    continue  # what __str__ accepts is not this property; do not let it kill the server thread
                specs.append(spec)
            path = "/dir%d" % d
            entries = []
            for j, spec in enumerate(specs):
                a = build(spec)
                a.filename = "e%d" % j
                entries.append(a)
            listing[path] = entries
            ctx.case(("listing", d, repr(specs)), sample=dict(kind="directory listing via SFTP session", entries=specs) if d == 0 else None)
            got = bench.client.listdir_attr(path)
            byname = {a.filename: a for a in got}
            if len(got) != len(specs):
                ctx.inconclusive("listing returned %d entries for %d sent" % (len(got), len(specs)))
                continue
            for j, spec in enumerate(specs):
                back = byname.get("e%d" % j)
                if back is None:
                    ctx.inconclusive("listing lost entry e%d" % j)
                    continue
                ctx.count("session_listing_entries_compared")
                if spec["uidgid"] is None:
                    ctx.count("session_listing_entries_without_uidgid")
                compare_decoded(ctx, spec, back, "session: directory listing entry (server formats the longname, then packs)")
            REC.drain(ctx)
    except Exception as e:
        ctx.inconclusive("session sample failed: %r" % (e,))
    finally:
        QUIET[0] = False
        if bench is not None:
            bench.close()
        shutil.rmtree(root, ignore_errors=True)
    REC.drain(ctx)


def run(ctx):
    SKIP[0] = ctx.shard % 4
    rng = ctx.rng
    install_contracts()
    ctx.note("contract_backend", gacontract.BACKEND)
    # all 2^5 presence combinations x boundary picks, partitioned over shards
    idx = 0
    for bits in range(32):
        for rep in range(ctx.pick(40, 400)):
            idx += 1
            if not ctx.mine(idx):
                continue
            spec = make_spec(rng, bits)
            ctx.case(("enum", bits, sorted((k, repr(v)) for k, v in spec.items())),
                     sample=dict(kind="presence-combination", bits=bits, spec=spec) if rep == 0 and bits == 21 and SKIP[0] <= 0 else None)
            ctx.count("presence_combinations_cases")
            one_case(ctx, rng, spec)
    for i in range(ctx.pick(12000, 60000)):
        spec = make_spec(rng)
        ctx.case(("rand", sorted((k, repr(v)) for k, v in spec.items())),
                 sample=dict(kind="random", spec=spec) if i < 1 and SKIP[0] <= 0 else None)
        if spec["ext"]:
            ctx.count("cases_with_extended")
        one_case(ctx, rng, spec)
    if ctx.violations:
        # the single-shot strata already refute the property in this shard; a decoder that is wrong about the
        # layout must not be driven further (misaligned reads can loop for hours)
        ctx.count("history_and_session_strata_skipped_after_violation")
    else:
        for hi in range(ctx.pick(4000, 25000)):
            history_case(ctx, rng, hi)
            if ctx.violations:
                break
        session_sample(ctx, rng, ctx.pick(150, 1500))
    ctx.require("observer_calls", 10000)
    ctx.require("packs_compared_with_and_without_formatting", 5000)
    ctx.require("history_packs_after_a_format_step", 1500)
    ctx.require("session_listing_entries_compared", 100)
    ctx.require("session_listing_entries_without_uidgid", 40)
    ctx.require("history_packs", 10000)
    ctx.require("packs_after_a_field_was_removed", 3000)
    ctx.require("packs_after_a_field_was_added", 3000)
    ctx.require("repeat_packs_of_the_same_object", 3000)
    ctx.require("roundtrips_compared", 5000)
    ctx.require("encodings_compared", 5000)
    ctx.require("contract_pack_appends_reference_encoding", 5000)
    ctx.require("contract_unpack_matches_reference_decoder", 5000)
    ctx.require("cases_with_extended", 1000)
    ctx.require("session_server_decodes", 100)
    ctx.require("session_client_decodes", 100)
