"""C15 — unauthenticated clients cannot reach connection-layer services."""
import threading
import time
import traceback

import paramiko
import paramiko.channel as _pch
import paramiko.transport as _ptr
from paramiko.server import InteractiveQuery

from vf.authkit import (AUTH_FAILED, AUTH_PARTIALLY_SUCCESSFUL, AUTH_SUCCESSFUL, MSG_USERAUTH_INFO_RESPONSE,
                        MSG_USERAUTH_REQUEST, MSG_USERAUTH_SUCCESS, FenceTimeout, Rd, Sess, Short, episodes, sstr,
                        started, u32)
from vf.g2kit import ParkCtl, RekeySess, RekeyTrouble, parking_tap, wait_until
from vf.props.c14 import KRB5_OID, install_gss_stub

META = dict(
    title="unauthenticated clients cannot reach connection-layer services",
    level="exploration",
    design_ref="§3 C15",
    technique="scripted unauthenticated client + callback log + counting wrappers on Channel.__init__, ChannelMap.put "
              "and every channel handler + victim WireTap (reply kinds) + accept-queue/channel-map snapshots",
    text="A client that has completed key exchange but not authentication sends every connection-layer message "
         "type 80..100 with well-formed, truncated and random payloads at seven points of the authentication "
         "protocol (after NEWKEYS, after SERVICE_ACCEPT, after a failed attempt, after partial success, after a "
         "public-key query, in the middle of keyboard-interactive, in the middle of a gssapi-with-mic exchange). "
         "Monitors: no check_channel_*/check_port_forward_request/cancel_port_forward_request/check_global_request "
         "callback, no Channel constructed, nothing put into the victim's channel map, no channel handler "
         "(_feed, _handle_request, ...) evaluated, nothing in the accept queue, and no REQUEST_SUCCESS / "
         "OPEN_CONFIRMATION / CHANNEL_SUCCESS / channel traffic sent by the victim. Authenticated control sessions "
         "in every shard prove that each of these monitors does fire when the same messages are legitimate. "
         "Round 3: (a) the same probes at every position INSIDE a key re-exchange that happens before authentication "
         "(server-initiated through renegotiate_keys() or the packet threshold, and peer-initiated; before/after "
         "the client's KEXINIT, before/after its NEWKEYS; positions produced by send hooks on the attacker tool and "
         "confirmed on the victim's tap; an authenticated control at the same position makes the monitors fire); (b) "
         "sequences of 8..12 events in which failed logins and connection-layer requests are mixed, the request "
         "being the k-th event for every k, fenced and pipelined, including requests queued directly behind the "
         "tenth failed login. Round 4: every refusal sent before authentication is parsed strictly and matched to "
         "the request it answers (CHANNEL_OPEN_FAILURE: uint32 recipient = sender channel of the oldest unanswered "
         "open, reason 1..4, two strings, nothing trailing; REQUEST_FAILURE: bare type byte, never more than requests "
         "read; nothing left unanswered on a live connection); field-value sessions send opens with sender channels "
         "across the uint32 range, odd window / packet sizes, long kind strings, and global requests with want_reply "
         "on/off and long names.",
    note="The victim may die on such messages (e.g. the empty _ensure_authed reply, unknown channel ids); dying "
         "refuses the request and is C38's subject, not judged here. One session per enumerated probe (+ up to two "
         "random follow-up probes while the victim lives).",
    rule="case = (auth point, message type, payload class, payload, follow-ups); distinct = hash of that; non-trivial = "
         "victim read the probe before any USERAUTH_SUCCESS",
    assumptions=["single dispatch thread on the victim: an IGNORE fence read means the probe was fully processed"],
)

S, P, F = AUTH_SUCCESSFUL, AUTH_PARTIALLY_SUCCESSFUL, AUTH_FAILED


def shards(tier):
    return 8 if tier == "quick" else 16


TIMEOUT = {"quick": 240, "thorough": 1500}

POINTS = ["after_newkeys", "after_service_accept", "after_failed_auth", "after_partial_auth", "after_pk_query",
          "mid_keyboard_interactive", "mid_gss_exchange"]
PAYLOADS = ["wellformed", "truncated", "random"]
FORBIDDEN_REPLIES = {81: "REQUEST_SUCCESS", 91: "CHANNEL_OPEN_CONFIRMATION", 99: "CHANNEL_SUCCESS",
                     93: "CHANNEL_WINDOW_ADJUST", 94: "CHANNEL_DATA", 95: "CHANNEL_EXTENDED_DATA", 96: "CHANNEL_EOF",
                     97: "CHANNEL_CLOSE", 98: "CHANNEL_REQUEST"}


def is_service_cb(name):
    return (name.startswith("check_channel") or name in ("check_port_forward_request", "cancel_port_forward_request",
                                                         "check_global_request"))


# ---------------------------------------------------------------------------
# counting wrappers (installed once per process)

class Probe:
    lock = threading.Lock()
    events = []  # (kind, transport-or-map id, detail)
    installed = False

    @classmethod
    def add(cls, kind, owner, detail=None):
        with cls.lock:
            cls.events.append((kind, owner, detail))

    @classmethod
    def mark(cls):
        with cls.lock:
            return len(cls.events)

    @classmethod
    def since(cls, k):
        with cls.lock:
            return list(cls.events[k:])


def install_wrappers():
    if Probe.installed:
        return
    Probe.installed = True
    orig_init = _pch.Channel.__init__

    def init(self, chanid, *a, **kw):
        Probe.add("Channel.__init__", None, chanid)
        return orig_init(self, chanid, *a, **kw)

    _pch.Channel.__init__ = init
    orig_put = _ptr.ChannelMap.put

    def put(self, chanid, chan):
        Probe.add("ChannelMap.put", id(self), chanid)
        return orig_put(self, chanid, chan)

    _ptr.ChannelMap.put = put
    table = _ptr.Transport._channel_handler_table
    for ptype, fn in list(table.items()):
        def wrapped(chan, m, _fn=fn, _name=fn.__name__):
            Probe.add("handler:" + _name, id(chan.transport._channels) if chan.transport is not None else None, chan.chanid)
            return _fn(chan, m)

        wrapped.__name__ = fn.__name__
        table[ptype] = wrapped
    # round 5: the four reply-type handlers of the transport (bound into each instance's table at construction,
    # so the class attributes are wrapped before any victim exists)
    for name in ("_parse_request_success", "_parse_request_failure", "_parse_channel_open_success",
                 "_parse_channel_open_failure"):
        def wrapped_reply(self, m, _fn=getattr(_ptr.Transport, name), _name=name):
            Probe.add("dispatch:" + _name, id(self._channels), None)
            return _fn(self, m)

        wrapped_reply.__name__ = name
        setattr(_ptr.Transport, name, wrapped_reply)
    orig_q = _ptr.Transport._queue_incoming_channel

    def queue(self, channel):
        Probe.add("queue_incoming", id(self._channels), channel.chanid)
        return orig_q(self, channel)

    _ptr.Transport._queue_incoming_channel = queue


# ---------------------------------------------------------------------------
# payloads

GLOBAL_KINDS = ["tcpip-forward", "cancel-tcpip-forward", "keepalive@openssh.com", "no-more-sessions@openssh.com",
                "hostkeys-prove-00@openssh.com", "x"]
OPEN_KINDS = ["session", "direct-tcpip", "x11", "forwarded-tcpip", "auth-agent@openssh.com", "foo"]
REQUEST_KEYS = ["exec", "shell", "pty-req", "subsystem", "env", "x11-req", "auth-agent-req@openssh.com",
                "window-change", "exit-status", "foo"]
VARIANTS = {80: len(GLOBAL_KINDS), 90: len(OPEN_KINDS), 98: len(REQUEST_KEYS)}


def wellformed(rng, t, variant=None):
    chan = rng.choice([0, 0, 1, 2, rng.getrandbits(32)])
    if t == 80:
        kind = GLOBAL_KINDS[variant] if variant is not None else rng.choice(GLOBAL_KINDS)
        body = sstr(kind) + bytes([rng.choice([0, 1])])
        if "tcpip" in kind:
            body += sstr(rng.choice(["127.0.0.1", "0.0.0.0", "", "localhost"])) + u32(rng.choice([0, 22, 8080, 65535]))
        return body
    if t == 81:
        return rng.choice([b"", u32(8080)])
    if t == 82:
        return b""
    if t == 90:
        kind = OPEN_KINDS[variant] if variant is not None else rng.choice(OPEN_KINDS)
        body = sstr(kind) + u32(chan) + u32(rng.choice([0, 32768, 1 << 21, 0xFFFFFFFF])) + u32(rng.choice([0, 32768, 0xFFFFFFFF]))
        if kind in ("direct-tcpip", "forwarded-tcpip"):
            body += sstr("127.0.0.1") + u32(22) + sstr("10.0.0.1") + u32(4242)
        elif kind == "x11":
            body += sstr("10.0.0.1") + u32(6000)
        return body
    if t == 91:
        return u32(chan) + u32(rng.randrange(4)) + u32(1 << 21) + u32(32768)
    if t == 92:
        return u32(chan) + u32(rng.randrange(1, 5)) + sstr("no") + sstr("en")
    if t == 93:
        return u32(chan) + u32(rng.choice([1, 32768, 0xFFFFFFFF]))
    if t == 94:
        return u32(chan) + sstr(rng.randbytes(rng.randint(0, 64)))
    if t == 95:
        return u32(chan) + u32(1) + sstr(rng.randbytes(rng.randint(0, 64)))
    if t in (96, 97, 99, 100):
        return u32(chan)
    if t == 98:
        key = REQUEST_KEYS[variant] if variant is not None else rng.choice(REQUEST_KEYS)
        body = u32(chan) + sstr(key) + bytes([rng.choice([0, 1])])
        if key == "exec":
            body += sstr("id")
        elif key == "subsystem":
            body += sstr("sftp")
        elif key == "env":
            body += sstr("A") + sstr("b")
        elif key == "pty-req":
            body += sstr("xterm") + u32(80) + u32(24) + u32(0) + u32(0) + sstr(b"\x00")
        elif key == "window-change":
            body += u32(80) + u32(24) + u32(0) + u32(0)
        elif key == "x11-req":
            body += b"\x00" + sstr("MIT-MAGIC-COOKIE-1") + sstr("00" * 16) + u32(0)
        elif key == "exit-status":
            body += u32(0)
        return body
    # 83..89: no defined format
    return rng.choice([b"", u32(chan), sstr("x") + u32(1)])


def make_probe(rng, t, pk, variant=None):
    if pk == "wellformed":
        return wellformed(rng, t, variant)
    if pk == "truncated":
        w = wellformed(rng, t)
        for _ in range(8):
            if len(w) > 0:
                break
            w = wellformed(rng, t)
        if not w:
            return b""
        return w[:rng.randrange(0, len(w))]
    return rng.randbytes(rng.choice([1, 3, 4, 5, 8, rng.randint(1, 80)]))


# ---------------------------------------------------------------------------

def policy_for(point):
    pol = dict(get_allowed_auths="password,publickey,keyboard-interactive,gssapi-with-mic",
               check_auth_password=F, check_auth_publickey=S, check_auth_none=F)
    if point == "after_partial_auth":
        pol["check_auth_password"] = P
    if point == "mid_keyboard_interactive":
        def q(username, submethods):
            iq = InteractiveQuery("t", "i")
            iq.add_prompt("p: ", False)
            return iq
        pol["check_auth_interactive"] = q
    if point == "mid_gss_exchange":
        pol["enable_auth_gssapi"] = True
    return pol


def reach_point(ctx, sess, point, rng):
    """Drive the victim to the auth point. Returns True when the expected server reply was seen on the victim's tap."""
    v = sess.victim
    user, svc = "u", "ssh-connection"

    def out_types(since):
        return [e["type"] for e in sess.vmsgs("out", since=since)]

    if point == "after_newkeys":
        return True
    since = sess.att.mark()
    _, st = sess.service_request()
    if st != "ok" or 6 not in out_types(since):
        return False
    if point == "after_service_accept":
        return True
    since = sess.att.mark()
    if point in ("after_failed_auth", "after_partial_auth"):
        for _ in range(rng.choice([1, 1, 2, 3]) if point == "after_failed_auth" else 1):
            _, st = sess.step(MSG_USERAUTH_REQUEST, sstr(user) + sstr(svc) + sstr("password") + b"\x00" + sstr("nope"))
        fails = [e for e in sess.vmsgs("out", types=(51,), since=since)]
        if st != "ok" or not fails:
            return False
        partial = fails[-1]["payload"][-1:] == b"\x01"
        return partial == (point == "after_partial_auth")
    if point == "after_pk_query":
        from vf import keys
        k = keys.ed25519()
        _, st = sess.step(MSG_USERAUTH_REQUEST, sstr(user) + sstr(svc) + sstr("publickey") + b"\x00"
                          + sstr("ssh-ed25519") + sstr(k.asbytes()))
        return st == "ok" and 60 in out_types(since)
    if point == "mid_keyboard_interactive":
        _, st = sess.step(MSG_USERAUTH_REQUEST, sstr(user) + sstr(svc) + sstr("keyboard-interactive") + sstr("") + sstr(""))
        return st == "ok" and 60 in out_types(since)
    if point == "mid_gss_exchange":
        _, st = sess.step(MSG_USERAUTH_REQUEST, sstr(user) + sstr(svc) + sstr("gssapi-with-mic") + u32(1) + sstr(KRB5_OID))
        return st == "ok" and 60 in out_types(since) and len(v._expected_packet) > 0
    raise ValueError(point)


def judge(ctx, sess, desc, pmark, since_n, control=False, prefix=None, context=""):
    """Evaluate everything the monitors saw since the first probe of this session."""
    v = sess.victim
    vmap = id(v._channels)
    pe = Probe.since(pmark)
    mine = [e for e in pe if e[1] in (None, vmap)]
    cbs = [c for c in sess.callbacks(since_n) if is_service_cb(c["name"])]
    eps = [ep for ep in episodes(sess.rec, since_n)]
    if prefix is None:
        prefix = "control_" if control else ""
    ctx.count(prefix + "service_callbacks_seen", len(cbs))
    ctx.count(prefix + "channel_inits_seen", len([e for e in mine if e[0] == "Channel.__init__"]))
    ctx.count(prefix + "channelmap_puts_seen", len([e for e in mine if e[0] == "ChannelMap.put"]))
    ctx.count(prefix + "channel_handler_evaluations_seen", len([e for e in mine if e[0].startswith("handler:")]))
    ctx.count(prefix + "feed_evaluations_seen", len([e for e in mine if e[0] in ("handler:_feed", "handler:_feed_extended")]))
    ctx.count(prefix + "accept_queue_entries_seen", len(v.server_accepts))
    ctx.count(prefix + "reply_handler_dispatches_seen", len([e for e in mine if e[0].startswith("dispatch:")]))
    positive = [o for ep in eps for o in ep["out"] if o["type"] in FORBIDDEN_REPLIES]
    ctx.count(prefix + "positive_replies_seen", len(positive))
    ctx.count(prefix + "probe_episodes", len(eps))
    if not control:
        for ep in eps:
            for o in ep["out"]:
                ctx.count("victim_reply_type_%s" % ("empty-message" if o["type"] is None else o["type"]))
            if not ep["out"]:
                ctx.count("victim_reply_none")
    if control:
        return
    granted = [e for e in sess.vmsgs("out", types=(MSG_USERAUTH_SUCCESS,))]
    if granted:
        ctx.inconclusive("harness: a USERAUTH_SUCCESS was sent in a session meant to stay unauthenticated")
        return
    check_refusals(ctx, sess, desc, since_n, context)

    def trig(n):
        """message type of the episode containing event number n"""
        t = None
        for ep in eps:
            if ep["msg"]["n"] <= n:
                t = ep["msg"]["type"]
        return t

    wit = dict(session=desc, victim_replies=[(o["type"], o["payload"][:40]) for ep in eps for o in ep["out"]][:12],
               callbacks=[(c["name"], c["args"]) for c in cbs][:8], wrappers=[(e[0], e[2]) for e in mine][:12],
               victim_exception=repr(v.saved_exception))
    # round 5: state a reply-type message would leave behind had it reached its handler
    ctx.count("reply_state_checks")
    if getattr(v, "global_response", None) is not None:
        ctx.violation("pre-auth REQUEST_SUCCESS stored as the transport's global response" + context,
                      "Transport.global_response holds a message from an unauthenticated client", wit)
    if isinstance(v.saved_exception, paramiko.ChannelException):
        ctx.violation("pre-auth CHANNEL_OPEN_FAILURE saved a ChannelException on the transport" + context,
                      "Transport.saved_exception was set from an unauthenticated client's CHANNEL_OPEN_FAILURE", wit)
    for c in cbs:
        ctx.violation("pre-auth callback %s reached via message type %s%s" % (c["name"], trig(c["n"]), context),
                      "the server consulted its application about a connection-layer request before authentication succeeded", wit)
    kinds = sorted(set(e[0] for e in mine))
    for k in kinds:
        ctx.violation("pre-auth %s evaluated%s" % (k, context),
                      "a channel object was created/registered/fed before authentication succeeded", wit)
    if len(v.server_accepts) > 0 or len(v._channels) > 0:
        ctx.violation("pre-auth channel present in %s%s" % ("accept queue" if v.server_accepts else "channel map", context),
                      "a channel exists on the server before authentication succeeded", wit)
    for o in positive:
        ctx.violation("pre-auth positive reply %s%s" % (FORBIDDEN_REPLIES[o["type"]], context),
                      "the server answered a connection-layer message of an unauthenticated client with a non-refusal", wit)
        break


def run_session(ctx, rng, desc, context="", tally=None):
    point = desc["point"]
    sess = started(lambda: Sess(rng, policy=policy_for(point)), lambda s: s.start(auth=False))
    if sess is None:
        ctx.inconclusive("handshake failed three times")
        return
    try:
        if not reach_point(ctx, sess, point, rng):
            ctx.inconclusive("could not reach auth point %s (victim active=%s exc=%r)"
                             % (point, sess.victim.is_active(), sess.victim.saved_exception))
            return
        ctx.count("point_" + point)
        pmark = Probe.mark()
        since_n = sess.att.mark()
        read_any = False
        for (t, pk, body) in desc["probes"]:
            seq, st = sess.step(t, body)
            if seq is not None and sess.victim_read_seq(seq, since_n) is not None:
                read_any = True
                ctx.count("probes_read_by_victim")
                ctx.count("probe_type_%d" % t)
                if tally:
                    ctx.count(tally + str(t))
            if st == "dead":
                ctx.count("victim_ended_after_probe")
                break
        judge(ctx, sess, desc, pmark, since_n, context=context)
        ctx.case(("c15", repr(desc)), sample=desc if desc.get("sample") else None, nontrivial=read_any)
    except FenceTimeout as e:
        ctx.inconclusive("fence timeout: %s" % e)
    finally:
        sess.close()


def run_control(ctx, rng):
    """Authenticated session sending the same kinds of messages: every monitor must fire."""
    sess = started(lambda: Sess(rng, policy=dict(check_port_forward_request=4022)), lambda s: s.start(auth=True))
    if sess is None:
        ctx.inconclusive("control handshake/auth failed three times")
        return
    try:
        pmark = Probe.mark()
        since_n = sess.att.mark()
        sess.step(90, sstr("session") + u32(7) + u32(1 << 21) + u32(32768))
        conf = [e for e in sess.vmsgs("out", types=(91,), since=since_n)]
        if not conf:
            ctx.inconclusive("control: no OPEN_CONFIRMATION for an authenticated session open")
            return
        vchan = int.from_bytes(conf[0]["payload"][5:9], "big")
        sess.step(98, u32(vchan) + sstr("exec") + b"\x01" + sstr("id"))
        sess.step(94, u32(vchan) + sstr(b"hello"))
        sess.step(95, u32(vchan) + u32(1) + sstr(b"err"))
        sess.step(80, sstr("tcpip-forward") + b"\x01" + sstr("127.0.0.1") + u32(0))
        sess.step(80, sstr("cancel-tcpip-forward") + b"\x01" + sstr("127.0.0.1") + u32(4022))
        sess.step(80, sstr("keepalive@openssh.com") + b"\x01")
        sess.step(81, u32(8080))
        sess.step(82, b"")
        sess.step(91, u32(99) + u32(0) + u32(1 << 21) + u32(32768))
        sess.step(92, u32(99) + u32(1) + sstr("no") + sstr("en"))
        judge(ctx, sess, dict(kind="control"), pmark, since_n, control=True)
        ctx.count("control_sessions")
    except FenceTimeout as e:
        ctx.inconclusive("control fence timeout: %s" % e)
    finally:
        sess.close()


# ---------------------------------------------------------------------------
# round 4: every refusal is parsed strictly and matched to the request it answers

SENDER_VALUES = [0, 1, 0xFFFFFF, 0x1000000, 0x7FFFFFFF, 0x80000000, 0xFEFFFFFF, 0xFF000000, 0xFF000001, 0xFFFFFFFF]


def parse_open(payload):
    """(kind bytes, sender channel) of a CHANNEL_OPEN whose first two fields are all there, else None."""
    try:
        r = Rd(payload, 1)
        return r.string(), r.u32()
    except Short:
        return None


def parse_global(payload):
    try:
        r = Rd(payload, 1)
        return r.string(), r.boolean()
    except Short:
        return None


def parse_open_failure(payload):
    """Strict: uint32 recipient, uint32 reason (1..4), string description, string language, nothing trailing."""
    try:
        r = Rd(payload, 1)
        rec, reason = r.u32(), r.u32()
        r.string()
        r.string()
        if not r.done():
            return None, "trailing bytes"
        if not 1 <= reason <= 4:
            return None, "reason code outside 1..4"
        return rec, None
    except Short:
        return None, "truncated"


def check_refusals(ctx, sess, desc, since_n, context):
    """Walk the victim's traffic since `since_n` in wire order.  Every CHANNEL_OPEN_FAILURE must be well-formed and
    answer the oldest unanswered CHANNEL_OPEN, naming that open's sender channel; every REQUEST_FAILURE must be the
    bare type byte and there may not be more of them than global requests read; if the victim is still there at the
    end (and not inside a key exchange, where replies are held back) no open and no want_reply request may be left
    without its refusal."""
    v = sess.victim
    pending = []  # [expected recipient or None (open not parseable), kind length]
    n_glob = n_want = n_82 = 0
    wit0 = dict(session=desc)
    for e in sess.rec.snapshot():
        if e.get("kind") != "msg" or e["side"] != "v" or e["n"] < since_n:
            continue
        t = e["type"]
        if e["dir"] == "in":
            if t == 90:
                po = parse_open(e["payload"])
                ctx.count("opens_read")
                if po is None:
                    pending.append(None)
                    ctx.count("opens_read_not_parseable")
                else:
                    kind, sender = po
                    pending.append(sender)
                    if sender >= 0xFF000000:
                        ctx.count("opens_with_sender_channel_ge_0xff000000")
                    if sender >= 0x80000000:
                        ctx.count("opens_with_sender_channel_ge_0x80000000")
                    if sender in SENDER_VALUES:
                        ctx.count("opens_sender_0x%x" % sender)
                    if len(kind) >= 256:
                        ctx.count("opens_with_long_kind")
            elif t == 80:
                pg = parse_global(e["payload"])
                n_glob += 1
                if pg is not None:
                    ctx.count("global_requests_want_reply_%s" % ("true" if pg[1] else "false"))
                    if pg[1]:
                        n_want += 1
                    if len(pg[0]) >= 256:
                        ctx.count("global_requests_with_long_name")
            continue
        if t == 92:
            rec, err = parse_open_failure(e["payload"])
            wit = dict(wit0, reply=e["payload"][:64], unanswered_opens=[p for p in pending][:6])
            if err is not None:
                ctx.violation("malformed CHANNEL_OPEN_FAILURE as pre-auth refusal (%s)%s" % (err, context),
                              "the refusal of a pre-auth channel open does not parse as uint32 recipient, uint32 reason "
                              "1..4, string, string", wit)
                if pending:
                    pending.pop(0)
                continue
            ctx.count("refusals_parsed_strictly")
            ctx.count("open_failures_parsed_strictly")
            if not pending:
                ctx.violation("CHANNEL_OPEN_FAILURE without a channel open to answer" + context,
                              "the victim sent more open failures than opens were read", wit)
                continue
            exp = pending.pop(0)
            if exp is None:
                ctx.count("open_failures_for_unparseable_opens_recipient_not_compared")
            elif rec != exp:
                ctx.violation("CHANNEL_OPEN_FAILURE names another channel than the sender channel of the open%s%s"
                              % (" (sender channel >= 0xff000000)" if exp >= 0xFF000000 else "", context),
                              "recipient channel 0x%x in the refusal, the open it answers came from channel 0x%x" % (rec, exp),
                              dict(wit, expected=exp, got=rec))
            else:
                ctx.count("open_failures_matched_to_sender_channel")
        elif t == 82:
            n_82 += 1
            if len(e["payload"]) != 1:
                ctx.violation("malformed REQUEST_FAILURE as pre-auth refusal (trailing bytes)" + context,
                              "REQUEST_FAILURE carries no fields", dict(wit0, reply=e["payload"][:64]))
            else:
                ctx.count("refusals_parsed_strictly")
                ctx.count("request_failures_parsed_strictly")
    if n_82 > n_glob:
        ctx.violation("more REQUEST_FAILURE messages than global requests read" + context,
                      "%d failures for %d requests" % (n_82, n_glob), wit0)
    # RFC 4254 wants no reply at all to want_reply=false; the statement only says "refused": counted, not judged
    if n_82 > n_want:
        ctx.count("request_failures_beyond_the_want_reply_requests", n_82 - n_want)
    if v.is_active() and not v.in_kex:
        ctx.count("sessions_alive_at_end_checked_for_unanswered_requests")
        if pending:
            ctx.violation("pre-auth CHANNEL_OPEN left without CHANNEL_OPEN_FAILURE on a live connection" + context,
                          "%d open(s) read, not answered, transport still active" % len(pending), dict(wit0, unanswered=pending[:6]))
        if n_82 < n_want:
            ctx.violation("pre-auth want_reply GLOBAL_REQUEST left without REQUEST_FAILURE on a live connection" + context,
                          "%d want_reply requests read, %d failures sent" % (n_want, n_82), wit0)


def field_probes(rng, variant):
    """Messages of the field-value stratum: (type, class, body)."""
    out = []
    kinds = ["session", "direct-tcpip", "x11", "forwarded-tcpip", "auth-agent@openssh.com", "foo"]
    odd = [0, 1, 0x7FFF, 0x7FFFFFFF, 0x80000000, 0xFF000000, 0xFFFFFFFF, 32768]
    senders = list(SENDER_VALUES)
    rng.shuffle(senders)
    for i, sender in enumerate(senders):
        kind = kinds[(i + variant) % len(kinds)]
        if variant % 2 and i % 3 == 0:
            kind = rng.choice(["k" * 256, "session" + "x" * 1000, "é" * 700, "z" * 20000])
        body = sstr(kind) + u32(sender) + u32(rng.choice(odd)) + u32(rng.choice(odd))
        if kind in ("direct-tcpip", "forwarded-tcpip"):
            body += sstr("127.0.0.1") + u32(22) + sstr("10.0.0.1") + u32(4242)
        elif kind == "x11":
            body += sstr("10.0.0.1") + u32(6000)
        out.append((90, "fields", body))
    names = ["tcpip-forward", "cancel-tcpip-forward", "keepalive@openssh.com", "x", "n" * 256, "name-" + "y" * 5000,
             "q" * 20000]
    for i, name in enumerate(names):
        for want in ((True, False) if (i + variant) % 2 == 0 else (False, True)):
            body = sstr(name) + (b"\x01" if want else b"\x00")
            if "tcpip" in name:
                body += sstr("0.0.0.0") + u32(rng.choice([0, 22, 0xFFFFFFFF]))
            out.append((80, "fields", body))
    rng.shuffle(out)
    return out


def run_field_stratum(ctx, rng, deadline):
    points = ["after_newkeys", "after_service_accept", "after_failed_auth", "after_partial_auth", "after_pk_query",
              "mid_keyboard_interactive"]
    reps = ctx.pick(2, 8)
    i = 0
    shown = 0
    for rep in range(reps):
        for point in points:
            i += 1
            if not ctx.mine(i):
                continue
            if time.time() > deadline:
                ctx.count("sessions_not_run_time_cap")
                continue
            desc = dict(stratum="field values", point=point, probes=field_probes(rng, rep))
            if shown < 1:
                desc["sample"] = True
                shown += 1
            ctx.count("sessions")
            ctx.count("field_value_sessions")
            try:
                run_session(ctx, rng, desc, context=" [field values]")
            except Exception:
                ctx.inconclusive("harness error: " + traceback.format_exc()[-900:])
    ctx.require("field_value_sessions", 10 if ctx.quick else 40)
    ctx.require("refusals_parsed_strictly", 450 if ctx.quick else 2500)
    ctx.require("open_failures_matched_to_sender_channel", 200 if ctx.quick else 1200)
    ctx.require("request_failures_parsed_strictly", 200 if ctx.quick else 1200)
    ctx.require("opens_with_sender_channel_ge_0xff000000", 30)
    ctx.require("opens_with_sender_channel_ge_0x80000000", 50)
    for sv in SENDER_VALUES:
        ctx.require("opens_sender_0x%x" % sv, 10)
    ctx.require("opens_with_long_kind", 6)
    ctx.require("global_requests_with_long_name", 20)
    ctx.require("global_requests_want_reply_true", 80)
    ctx.require("global_requests_want_reply_false", 80)
    ctx.require("sessions_alive_at_end_checked_for_unanswered_requests", 150)


# ---------------------------------------------------------------------------
# round 3 (a): connection-layer messages INSIDE a key re-exchange, before authentication
#
# Positions are those of the client's (attacker's) own messages in the exchange; they are produced by one-shot
# "before my message of type T goes out" hooks on the attacker tool's packetizer (g2kit), so the probe is on the
# wire exactly there, and they are *confirmed* from the victim's tap before a probe counts for its cell:
#   before_own_kexinit  victim's KEXINIT out, client's not yet read     (server-initiated exchanges only)
#   after_own_kexinit   client's KEXINIT read, its KEX*_INIT (30..41) not yet
#   before_own_newkeys  client's KEX*_INIT read, its NEWKEYS not yet
#   after_own_newkeys   client's NEWKEYS read

REKEY_INITIATORS = ("server_api", "server_threshold", "peer")
REKEY_POSITIONS = ("before_own_kexinit", "after_own_kexinit", "before_own_newkeys", "after_own_newkeys")
REKEY_HOOK = {"before_own_kexinit": 20, "after_own_kexinit": "kex", "before_own_newkeys": 21}
REKEY_POINTS = ["after_service_accept", "after_failed_auth", "after_newkeys", "after_partial_auth",
                "mid_keyboard_interactive", "after_pk_query"]


def rekey_cells():
    return [(i, p) for i in REKEY_INITIATORS for p in REKEY_POSITIONS if not (i == "peer" and p == "before_own_kexinit")]


def window_probes(rng, channel_message_inside):
    """(probes for the window, probe for after the exchange).  Window: every global-request kind and every
    channel-open kind (the victim survives those) and a stray reply type; a channel message for a channel that was
    never allocated (the victim may end the transport on it) is either the last message inside the window or is sent
    after the exchange has completed, so that completed exchanges (deferred refusals flushed) are observed too."""
    probes = [(80, "wellformed", wellformed(rng, 80, vi)) for vi in range(len(GLOBAL_KINDS))]
    probes += [(90, "wellformed", wellformed(rng, 90, vi)) for vi in range(len(OPEN_KINDS))]
    t = rng.choice([81, 82, 91, 92])
    probes.append((t, "wellformed", wellformed(rng, t)))
    rng.shuffle(probes)
    t = rng.choice([98, 98, 94, 94, 93, 95, 96, 97, 99, 100])
    chan = (t, "wellformed", wellformed(rng, t, rng.randrange(len(REQUEST_KEYS)) if t == 98 else None))
    if channel_message_inside:
        return probes + [chan], None
    return probes, chan


def classify_position(sess, mark, n):
    """Where, in the exchange started after `mark`, did the victim read the message with event number n?"""
    def first(direction, types):
        ev = sess.att.victim_msgs(direction, types, mark)
        return ev[0]["n"] if ev else None

    out20, in20 = first("out", (20,)), first("in", (20,))
    in30, in21 = first("in", tuple(range(30, 42))), first("in", (21,))
    if in21 is not None and n > in21:
        return "after_own_newkeys"
    if in30 is not None and n > in30:
        return "before_own_newkeys"
    if in20 is not None and n > in20:
        return "after_own_kexinit"
    if out20 is not None and n > out20:
        return "before_own_kexinit"
    return "outside the exchange"


def run_rekey_window(ctx, rng, desc, control=False):
    point, initiator, position = desc["point"], desc["initiator"], desc["position"]
    pol = dict(check_port_forward_request=4022) if control else policy_for(point)
    sess = started(lambda: RekeySess(rng, policy=pol), lambda s: s.start(auth=control))
    if sess is None:
        ctx.inconclusive("re-key window: handshake failed three times")
        return
    prefix = "rekey_control_" if control else ""
    try:
        if not control and not reach_point(ctx, sess, point, rng):
            ctx.inconclusive("re-key window: could not reach auth point %s" % point)
            return
        v, a = sess.victim, sess.att.att
        pmark = Probe.mark()
        since_n = sess.att.mark()
        sent = []

        def fire():
            for (t, pk, body) in desc["probes"]:
                m0 = sess.att.mark()  # sequence numbers restart at NEWKEYS under strict kex: match by position too
                seq, st = sess.step(t, body)
                sent.append((t, seq, m0))
                if st == "dead":
                    break

        sess.ctl.swallow = True
        hook = REKEY_HOOK.get(position)
        if hook is not None:
            sess.ctl.arm(hook, fire)
        try:
            mark = sess.start_rekey(initiator)
        except RekeyTrouble as e:
            ctx.inconclusive("re-key window: %s" % e)
            return
        if hook is None:
            wait_until(lambda: sess.a_keys_out(mark) or not v.is_active() or not a.is_active(), 90)
            if not sess.a_keys_out(mark):
                ctx.inconclusive("re-key window: the attacker tool never sent NEWKEYS (victim active=%s exc=%r)"
                                 % (v.is_active(), v.saved_exception))
                return
            fire()
        elif not sess.ctl.fired.wait(150):
            ctx.inconclusive("re-key window: position %s/%s never reached (victim active=%s exc=%r)"
                             % (initiator, position, v.is_active(), v.saved_exception))
            return
        if sess.ctl.errors:
            ctx.inconclusive("re-key window: harness trouble inside the hook: %r" % (sess.ctl.errors[0],))
            return
        state = sess.wait_rekey(mark)
        if state == "done" and desc.get("tail") is not None:
            t, pk, body = desc["tail"]
            seq, st = sess.step(t, body)
            if seq is not None:
                ctx.count("rekey_channel_message_after_completed_exchange")
        read_any = False
        for (t, seq, m0) in sent:
            e = sess.victim_read_seq(seq, m0) if seq is not None else None
            if e is not None and e["type"] != t:
                e = None
            if e is None:
                ctx.count(prefix + "rekey_probe_not_read_by_victim")
                continue
            pos = classify_position(sess, mark, e["n"])
            if pos != position:
                ctx.inconclusive("re-key window: probe type %d was read %s, not %s (%s)" % (t, pos, position, initiator))
                continue
            read_any = True
            ctx.count("%srekey_cell_%s_%s_probes_read" % (prefix, initiator, position))
            ctx.count(prefix + "rekey_window_probes_read")
        ctx.count(prefix + "rekey_exchange_" + state.replace("-", "_"))
        if not control:
            ctx.count("rekey_point_" + point)
        judge(ctx, sess, desc, pmark, since_n, control, prefix=prefix if control else None,
              context=" [inside a key re-exchange: %s]" % position.replace("_", " "))
        if control:
            ctx.count("rekey_control_sessions")
        else:
            ctx.case(("c15-rekey", repr(desc)), sample=desc if desc.get("sample") else None, nontrivial=read_any)
    except FenceTimeout as e:
        ctx.inconclusive("re-key window: fence timeout: %s" % e)
    finally:
        sess.ctl.swallow = False
        sess.close()


def run_rekey_stratum(ctx, rng, deadline):
    cells = rekey_cells()
    # control: the same probes at the key position in an AUTHENTICATED session must make the monitors fire
    run_rekey_window(ctx, rng, dict(point="authenticated", initiator="server_api", position="before_own_kexinit",
                                    probes=[(80, "wellformed", sstr("tcpip-forward") + b"\x01" + sstr("127.0.0.1") + u32(0)),
                                            (80, "wellformed", sstr("x") + b"\x01"),
                                            (90, "wellformed", sstr("session") + u32(3) + u32(1 << 21) + u32(32768))]),
                     control=True)
    plan = []
    reps = ctx.pick(1, 3)
    for rep in range(reps):
        for pi, point in enumerate(REKEY_POINTS):
            for (initiator, position) in cells:
                # quick: every cell at two auth points; the position that reaches the normal dispatch
                # (before_own_kexinit) at two more
                if ctx.quick and pi >= 2 and not (position == "before_own_kexinit" and pi < 4):
                    continue
                plan.append((point, initiator, position))
    shown = 0
    nth = {}
    for i, (point, initiator, position) in enumerate(plan):
        nth[(initiator, position)] = nth.get((initiator, position), 0) + 1
        if not ctx.mine(i):
            continue
        if time.time() > deadline:
            ctx.count("sessions_not_run_time_cap")
            continue
        probes, tail = window_probes(rng, channel_message_inside=nth[(initiator, position)] % 2 == 0)
        desc = dict(stratum="inside re-key", point=point, initiator=initiator, position=position, probes=probes, tail=tail)
        if shown < 1 and position == "before_own_kexinit":
            desc["sample"] = True
            shown += 1
        ctx.count("sessions")
        try:
            run_rekey_window(ctx, rng, desc)
        except Exception:
            ctx.inconclusive("harness error: " + traceback.format_exc()[-900:])
    # floors: probes confirmed inside every cell; survivable positions see the whole probe list
    for (initiator, position) in cells:
        survivable = position in ("before_own_kexinit", "after_own_newkeys")
        ctx.require("rekey_cell_%s_%s_probes_read" % (initiator, position), (16 if survivable else 2) * reps)
    ctx.require("rekey_exchange_done", 5 * reps)
    ctx.require("rekey_channel_message_after_completed_exchange", 5 * reps)
    ctx.require("rekey_control_sessions", 2)
    ctx.require("rekey_control_rekey_cell_server_api_before_own_kexinit_probes_read", 6)
    ctx.require("rekey_control_service_callbacks_seen", 4)
    ctx.require("rekey_control_channel_inits_seen", 2)


# ---------------------------------------------------------------------------
# round 3 (b): failed logins and refused connection-layer requests counted on one connection

def counting_plan(ctx, rng):
    plan = []
    for total in range(8, 13):
        for k in range(1, total + 1):
            ev = ["F"] * total
            ev[k - 1] = "C"
            # a request behind the ninth/tenth failed login is pipelined (it has to be on the wire before the server
            # hangs up); otherwise the two modes alternate
            plan.append(dict(events=ev, mode="burst" if (k >= 10 or (total + k) % 2) else "fenced", total=total, k=k))
    mixes = [["F", "C"] * 10 + ["C"], ["C"] * 9 + ["F"] * 10 + ["C"], ["F"] * 9 + ["C", "F", "C"],
             ["C", "C"] + ["F"] * 10 + ["C", "C"], ["F"] * 5 + ["C"] * 5 + ["F"] * 5 + ["C"]]
    for j in range(ctx.pick(6, 60)):
        n_f, n_c = rng.randint(8, 12), rng.randint(2, 7)
        ev = ["F"] * n_f + ["C"] * n_c
        rng.shuffle(ev)
        last_f = max(i for i, e in enumerate(ev) if e == "F")
        ev.insert(last_f + 1, "C")  # one request directly behind the last failed login
        mixes.append(ev)
    for j, ev in enumerate(mixes):
        for mode in (("burst", "fenced") if j < 5 else (("burst", "fenced")[j % 2],)):
            plan.append(dict(events=list(ev), mode=mode, total=len(ev), k=0))
    return plan


COUNTING_KINDS = [(80, 0), (90, 0), (80, 5), (90, 1), (80, 1), (90, 3)]


def run_counting(ctx, rng, desc):
    sess = started(lambda: Sess(rng, policy=policy_for("after_failed_auth")), lambda s: s.start(auth=False))
    if sess is None:
        ctx.inconclusive("counting: handshake failed three times")
        return
    try:
        _, st = sess.service_request()
        if st != "ok":
            ctx.inconclusive("counting: victim ended on SERVICE_REQUEST")
            return
        pmark = Probe.mark()
        since_n = sess.att.mark()
        n_f = 0
        sent_c = []  # (seq, failed logins sent before it, directly behind a failed login)
        prev = None
        for i, ev in enumerate(desc["events"]):
            if ev == "F":
                ptype, body = MSG_USERAUTH_REQUEST, sstr("u") + sstr("ssh-connection") + sstr("password") + b"\x00" + sstr("nope")
                n_f += 1
            else:
                ptype, _, body = desc["probes"][i]
            if desc["mode"] == "fenced":
                seq, st = sess.step(ptype, body)
            else:
                seq, st = sess.raw(ptype, body), "ok"
            if ev == "C" and seq is not None:
                sent_c.append((seq, n_f, prev == "F"))
            prev = ev
            if st == "dead":
                break  # fenced mode: the victim is gone, nothing more can reach it
        if desc["mode"] == "burst":
            sess.fence()
        eps = episodes(sess.rec, since_n)
        fails = 0
        read_any = False
        for ep in eps:
            t = ep["msg"]["type"]
            if t is not None and 80 <= t <= 100:
                read_any = True
                ctx.count("conn_request_read_after_%d_failures" % fails)
                ctx.count("counting_conn_requests_read")
            fails += len([o for o in ep["out"] if o["type"] == 51 and o["payload"][-1:] == b"\x00"])
        ctx.count("counting_failures_observed", fails)
        if fails >= 10:
            ctx.count("counting_sessions_reaching_tenth_failure")
        ctx.count("counting_sessions_%s" % desc["mode"])
        ctx.count("counting_total_%d" % desc["total"] if desc["k"] else "counting_mixed_sequences")
        for (seq, before, behind_f) in sent_c:
            if before >= 10:
                ctx.count("conn_request_sent_behind_tenth_failure")
                if behind_f and before == 10 and desc["mode"] == "burst":
                    ctx.count("conn_request_pipelined_directly_behind_tenth_failure")
                if seq is not None and sess.victim_read_seq(seq, since_n) is not None:
                    ctx.count("conn_request_behind_tenth_failure_read_by_victim")
        judge(ctx, sess, desc, pmark, since_n, context=" [request mixed with failed logins around the ten-failure limit]")
        ctx.case(("c15-count", repr(desc)), sample=desc if desc.get("sample") else None, nontrivial=read_any)
    except FenceTimeout as e:
        ctx.inconclusive("counting: fence timeout: %s" % e)
    finally:
        sess.close()


def run_counting_stratum(ctx, rng, deadline):
    plan = counting_plan(ctx, rng)
    shown = 0
    for i, p in enumerate(plan):
        if not ctx.mine(i):
            continue
        if time.time() > deadline:
            ctx.count("sessions_not_run_time_cap")
            continue
        probes = {}
        n_c = len([e for e in p["events"] if e == "C"])
        ci = 0
        for j, ev in enumerate(p["events"]):
            if ev != "C":
                continue
            ci += 1
            if ci == n_c and j == len(p["events"]) - 1 and rng.random() < 0.4:
                t = rng.choice([98, 94, 97])  # a channel message (ends the transport: unknown channel) only as the last event
                probes[j] = (t, "wellformed", wellformed(rng, t, rng.randrange(len(REQUEST_KEYS)) if t == 98 else None))
            else:
                t, variant = COUNTING_KINDS[(i + ci) % len(COUNTING_KINDS)]
                probes[j] = (t, "wellformed", wellformed(rng, t, variant))
        desc = dict(stratum="counting", events="".join(p["events"]), mode=p["mode"], total=p["total"], k=p["k"], probes=probes)
        if shown < 1 and p["k"] == 11:
            desc["sample"] = True
            shown += 1
        ctx.count("sessions")
        try:
            run_counting(ctx, rng, desc)
        except Exception:
            ctx.inconclusive("harness error: " + traceback.format_exc()[-900:])
    for n in range(10):
        ctx.require("conn_request_read_after_%d_failures" % n, 3)
    for total in range(8, 13):
        ctx.require("counting_total_%d" % total, total)
    ctx.require("counting_mixed_sequences", 10)
    ctx.require("counting_sessions_reaching_tenth_failure", 15)
    ctx.require("counting_sessions_burst", 20)
    ctx.require("counting_sessions_fenced", 20)
    ctx.require("conn_request_sent_behind_tenth_failure", 5)
    ctx.require("conn_request_pipelined_directly_behind_tenth_failure", 3)


# ---------------------------------------------------------------------------
# round 5 (a): reply-type connection messages (81, 82, 91, 92) and channel messages for never-allocated ids

REPLY_TYPES = (81, 82, 91, 92)
REPLY_POINTS = ["after_newkeys", "after_service_accept", "after_failed_auth", "after_partial_auth", "after_pk_query",
                "mid_keyboard_interactive"]


def reply_probes(rng, last):
    out = []
    for t in REPLY_TYPES:
        for rep in range(2):
            chan = rng.choice([0, 1, 2, 7, 0xFFFFFFFF])
            if t == 81:
                body = rng.choice([b"", u32(8080), u32(0)])
            elif t == 82:
                body = b""
            elif t == 91:
                body = u32(chan) + u32(rng.randrange(4)) + u32(1 << 21) + u32(32768)
            else:
                body = u32(chan) + u32(rng.randrange(1, 5)) + sstr("refused") + sstr("en")
            out.append((t, "wellformed", body))
    rng.shuffle(out)
    out.append((last, "wellformed", wellformed(rng, last, rng.randrange(len(REQUEST_KEYS)) if last == 98 else None)))
    return out


def run_reply_stratum(ctx, rng, deadline):
    reps = ctx.pick(1, 3)
    i = 0
    for rep in range(reps):
        for pi, point in enumerate(REPLY_POINTS):
            for li, last in enumerate(range(93, 101)):
                if ctx.quick and (li + pi) % 4:
                    continue  # quick: two of the eight channel-message types per point, all eight over the points
                i += 1
                if not ctx.mine(i):
                    continue
                if time.time() > deadline:
                    ctx.count("sessions_not_run_time_cap")
                    continue
                desc = dict(stratum="reply types", point=point, probes=reply_probes(rng, last))
                ctx.count("sessions")
                ctx.count("reply_type_sessions")
                try:
                    run_session(ctx, rng, desc, context=" [reply-type message]", tally="reply_type_read_")
                except Exception:
                    ctx.inconclusive("harness error: " + traceback.format_exc()[-900:])
    for t in REPLY_TYPES:
        ctx.require("reply_type_read_%d" % t, 20 * reps)
    for t in range(93, 101):
        ctx.require("reply_type_read_%d" % t, reps)
    ctx.require("reply_state_checks", 600 if ctx.quick else 3000)
    ctx.require("control_reply_handler_dispatches_seen", 8)


# ---------------------------------------------------------------------------
# round 5 (b): the application closes the transport after an unauthenticated CHANNEL_OPEN / GLOBAL_REQUEST was READ
# and before it is dispatched.  The victim's packetizer (public packetizer_class seam) parks the reader thread right
# after read_message() returned the probe; the harness calls Transport.close() from another thread, waits until the
# transport is marked inactive, and lets the reader go on.

CLOSE_POINTS = ["after_service_accept", "after_failed_auth", "after_partial_auth", "after_newkeys"]


def run_close_race(ctx, rng, desc, control=False):
    point = desc["point"]
    park = ParkCtl()
    pol = dict(check_port_forward_request=4022) if control else policy_for(point)
    sess = started(lambda: Sess(rng, policy=pol, victim_kw=lambda rec: dict(packetizer_class=parking_tap(rec, park))),
                   lambda s: s.start(auth=control))
    if sess is None:
        ctx.inconclusive("close race: handshake failed three times")
        return
    prefix = "close_race_control_" if control else ""
    try:
        if not control and not reach_point(ctx, sess, point, rng):
            ctx.inconclusive("close race: could not reach auth point %s" % point)
            return
        v = sess.victim
        pmark = Probe.mark()
        since_n = sess.att.mark()
        t, pk, body = desc["probes"][0]
        park.arm((t,))
        seq = sess.raw(t, body)
        if seq is None or not park.parked.wait(90):
            park.release.set()
            ctx.inconclusive("close race: the victim's reader never parked on the probe")
            return
        ctx.count(prefix + "close_race_reader_parked_after_read")
        closer = None
        if not control:
            closer = threading.Thread(target=v.close, daemon=True)
            closer.start()
            if not wait_until(lambda: not v.active, 60):
                park.release.set()
                ctx.inconclusive("close race: close() did not mark the transport inactive")
                return
            ctx.count("close_race_closed_while_parked")
        park.release.set()
        if closer is not None:
            closer.join(60)
            v.join(30)
            if v.is_alive():
                ctx.inconclusive("close race: transport thread still running after close()")
                return
        else:
            sess.fence()
        if park.resumed:
            ctx.count(prefix + "close_race_dispatch_resumed")
        ctx.count(prefix + "close_race_probe_type_%d" % t)
        judge(ctx, sess, desc, pmark, since_n, control, prefix=prefix if control else None,
              context=" [local close() between read and dispatch]")
        if control:
            ctx.count("close_race_control_sessions")
        else:
            ctx.case(("c15-close", repr(desc)), sample=desc if desc.get("sample") else None, nontrivial=park.resumed)
    except FenceTimeout as e:
        ctx.inconclusive("close race: fence timeout: %s" % e)
    finally:
        park.release.set()
        sess.close()


def run_close_stratum(ctx, rng, deadline):
    run_close_race(ctx, rng, dict(point="authenticated", probes=[(80, "wellformed", sstr("x") + b"\x01")]), control=True)
    run_close_race(ctx, rng, dict(point="authenticated",
                                  probes=[(90, "wellformed", sstr("session") + u32(5) + u32(1 << 21) + u32(32768))]), control=True)
    reps = ctx.pick(1, 4)
    i = 0
    shown = 0
    for rep in range(reps):
        for pi, point in enumerate(CLOSE_POINTS):
            for t, n_var in ((80, len(GLOBAL_KINDS)), (90, len(OPEN_KINDS))):
                for variant in range(n_var):
                    if ctx.quick and (variant + pi) % 2:
                        continue  # quick: every kind at two of the four points
                    i += 1
                    if not ctx.mine(i):
                        continue
                    if time.time() > deadline:
                        ctx.count("sessions_not_run_time_cap")
                        continue
                    desc = dict(stratum="close race", point=point, probes=[(t, "wellformed", wellformed(rng, t, variant))])
                    if shown < 1:
                        desc["sample"] = True
                        shown += 1
                    ctx.count("sessions")
                    try:
                        run_close_race(ctx, rng, desc)
                    except Exception:
                        ctx.inconclusive("harness error: " + traceback.format_exc()[-900:])
    ctx.require("close_race_closed_while_parked", 20 * reps)
    ctx.require("close_race_dispatch_resumed", 20 * reps)
    ctx.require("close_race_probe_type_80", 10 * reps)
    ctx.require("close_race_probe_type_90", 10 * reps)
    ctx.require("close_race_control_sessions", 4)
    ctx.require("close_race_control_service_callbacks_seen", 4)
    ctx.require("close_race_control_channel_inits_seen", 2)


def run(ctx):
    rng = ctx.rng
    install_gss_stub()
    install_wrappers()
    run_control(ctx, rng)
    plan = []
    for point in POINTS:
        for t in range(80, 101):
            for pk in PAYLOADS:
                for variant in range(VARIANTS.get(t, 1) if pk == "wellformed" else 1):
                    plan.append((point, t, pk, variant if t in VARIANTS and pk == "wellformed" else None))
    reps = ctx.pick(1, 6)
    deadline = ctx.deadline(150, 1200)
    shown = 0
    idx = 0
    for rep in range(reps):
        for (point, t, pk, variant) in plan:
            idx += 1
            if not ctx.mine(idx):
                continue
            if time.time() > deadline:
                ctx.count("sessions_not_run_time_cap")
                continue
            probes = [(t, pk, make_probe(rng, t, pk, variant))]
            for _ in range(rng.choice([0, 0, 1, 2])):
                t2 = rng.randint(80, 100)
                pk2 = rng.choice(PAYLOADS)
                probes.append((t2, pk2, make_probe(rng, t2, pk2)))
            desc = dict(point=point, probes=[(a, b, c) for a, b, c in probes])
            if shown < 3 and pk == "wellformed" and t in (80, 90, 98, 94):
                desc["sample"] = True
                shown += 1
            ctx.count("sessions")
            try:
                run_session(ctx, rng, desc)
            except Exception:
                ctx.inconclusive("harness error: " + traceback.format_exc()[-900:])
    run_control(ctx, rng)
    run_field_stratum(ctx, rng, ctx.deadline(180, 1300))
    run_reply_stratum(ctx, rng, ctx.deadline(185, 1320))
    run_close_stratum(ctx, rng, ctx.deadline(188, 1340))
    run_rekey_stratum(ctx, rng, ctx.deadline(190, 1350))
    run_counting_stratum(ctx, rng, ctx.deadline(200, 1400))
    ctx.require("probes_read_by_victim", 450 if ctx.quick else 2500)
    ctx.require("probe_episodes", 450 if ctx.quick else 2500)
    for p in POINTS:
        ctx.require("point_" + p, 30)
    # the monitors must be proven alive by the authenticated control sessions
    ctx.require("control_sessions", 2)
    ctx.require("control_service_callbacks_seen", 6)
    ctx.require("control_channel_inits_seen", 2)
    ctx.require("control_channelmap_puts_seen", 2)
    ctx.require("control_channel_handler_evaluations_seen", 4)
    ctx.require("control_feed_evaluations_seen", 2)
    ctx.require("control_accept_queue_entries_seen", 2)
    ctx.require("control_positive_replies_seen", 4)
