"""Honest client/server pair over NetSim with WireTaps and a callback-logging
ServerInterface."""
import threading
import time

import paramiko
from paramiko import (
    AUTH_FAILED,
    AUTH_PARTIALLY_SUCCESSFUL,
    AUTH_SUCCESSFUL,
    OPEN_SUCCEEDED,
)

from vf import keys, net, tap

# quiet paramiko's logging (transport threads log tracebacks at ERROR)
import logging

logging.getLogger("paramiko").addHandler(logging.NullHandler())
logging.getLogger("paramiko").propagate = False


class LogServer(paramiko.ServerInterface):
    """Every callback is logged (name, args, returned value) into the recorder.
    `policy[name]` overrides the default answer: a constant, or a callable
    taking the callback's arguments."""

    def __init__(self, recorder, policy=None, users=None):
        self.rec = recorder
        self.policy = policy or {}
        self.users = users or {"u": "pw"}
        self.allowed_keys = []
        self.events = {}

    def _answer(self, name, default, *args):
        p = self.policy.get(name, default)
        val = p(*args) if callable(p) else p
        self.rec.add(kind="cb", name=name, args=args, result=val)
        return val

    def get_allowed_auths(self, username):
        return self._answer("get_allowed_auths", "password,publickey,keyboard-interactive", username)

    def check_auth_none(self, username):
        return self._answer("check_auth_none", AUTH_FAILED, username)

    def check_auth_password(self, username, password):
        ok = self.users.get(username) == password
        return self._answer("check_auth_password", AUTH_SUCCESSFUL if ok else AUTH_FAILED, username, password)

    def check_auth_publickey(self, username, key):
        ok = username in self.users and any(key == k for k in self.allowed_keys)
        return self._answer("check_auth_publickey", AUTH_SUCCESSFUL if ok else AUTH_FAILED, username, key)

    def check_auth_interactive(self, username, submethods):
        return self._answer("check_auth_interactive", AUTH_FAILED, username, submethods)

    def check_auth_interactive_response(self, responses):
        return self._answer("check_auth_interactive_response", AUTH_FAILED, responses)

    def check_auth_gssapi_with_mic(self, username, gss_authenticated=AUTH_FAILED, cc_file=None):
        return self._answer("check_auth_gssapi_with_mic", AUTH_FAILED, username, gss_authenticated)

    def check_auth_gssapi_keyex(self, username, gss_authenticated=AUTH_FAILED, cc_file=None):
        return self._answer("check_auth_gssapi_keyex", AUTH_FAILED, username, gss_authenticated)

    def enable_auth_gssapi(self):
        return self._answer("enable_auth_gssapi", False)

    def check_channel_request(self, kind, chanid):
        return self._answer("check_channel_request", OPEN_SUCCEEDED, kind, chanid)

    def check_channel_direct_tcpip_request(self, chanid, origin, destination):
        return self._answer("check_channel_direct_tcpip_request", OPEN_SUCCEEDED, chanid, origin, destination)

    def check_port_forward_request(self, address, port):
        return self._answer("check_port_forward_request", False, address, port)

    def cancel_port_forward_request(self, address, port):
        return self._answer("cancel_port_forward_request", None, address, port)

    def check_global_request(self, kind, msg):
        return self._answer("check_global_request", False, kind)

    def check_channel_pty_request(self, channel, term, width, height, pixelwidth, pixelheight, modes):
        return self._answer("check_channel_pty_request", True, channel.get_id(), term)

    def check_channel_shell_request(self, channel):
        return self._answer("check_channel_shell_request", True, channel.get_id())

    def check_channel_exec_request(self, channel, command):
        return self._answer("check_channel_exec_request", True, channel.get_id(), command)

    def check_channel_subsystem_request(self, channel, name):
        self.rec.add(kind="cb", name="check_channel_subsystem_request", args=(channel.get_id(), name), result=None)
        return super().check_channel_subsystem_request(channel, name)

    def check_channel_window_change_request(self, channel, width, height, pixelwidth, pixelheight):
        return self._answer("check_channel_window_change_request", True, channel.get_id())

    def check_channel_x11_request(self, channel, single_connection, auth_protocol, auth_cookie, screen_number):
        return self._answer("check_channel_x11_request", True, channel.get_id())

    def check_channel_forward_agent_request(self, channel):
        return self._answer("check_channel_forward_agent_request", True, channel.get_id())

    def check_channel_env_request(self, channel, name, value):
        return self._answer("check_channel_env_request", True, channel.get_id(), name, value)


def watched(cls):
    """Observation-only subclass: every value assigned to `saved_exception`
    is kept in `exc_history` (get_exception() clears the attribute, and API
    calls such as renegotiate_keys consume it, so the attribute alone loses
    the cause of a transport's death)."""

    class Watched(cls):
        def _get_saved(self):
            return self.__dict__.get("_vf_saved_exception")

        def _set_saved(self, value):
            self.__dict__["_vf_saved_exception"] = value
            if value is not None:
                self.__dict__.setdefault("exc_history", []).append(value)

        saved_exception = property(_get_saved, _set_saved)

    Watched.__name__ = "Watched" + cls.__name__
    return Watched


WatchedTransport = watched(paramiko.Transport)


class Pair:
    def __init__(
        self,
        rng=None,
        client_kw=None,
        server_kw=None,
        host_keys=None,
        link=None,
        server=None,
        recorder=None,
        client_cls=paramiko.Transport,
        server_cls=paramiko.Transport,
        on_send=None,
        on_read=None,
        moduli=False,
    ):
        self.rec = recorder or tap.Recorder()
        self.link = link or net.Link(rng)
        self.server = server or LogServer(self.rec)
        on_send = on_send or {}
        on_read = on_read or {}
        ckw = dict(client_kw or {})
        skw = dict(server_kw or {})
        ckw.setdefault("packetizer_class", tap.make_tap(self.rec, "c", on_send.get("c"), on_read.get("c")))
        skw.setdefault("packetizer_class", tap.make_tap(self.rec, "s", on_send.get("s"), on_read.get("s")))
        self.tc = client_cls(self.link.a, **ckw)
        self.ts = server_cls(self.link.b, **skw)
        for k in host_keys or [keys.rsa()]:
            self.ts.add_server_key(k)
        self.client_exc = None
        self.server_exc = None
        self._sev = threading.Event()

    def start(self, timeout=20):
        """Run the initial handshake. Returns True when both sides completed."""
        try:
            self.ts.start_server(event=self._sev, server=self.server)
        except Exception as e:  # pragma: no cover
            self.server_exc = e
        try:
            self.tc.start_client(timeout=timeout)
        except Exception as e:
            self.client_exc = e
        self._sev.wait(timeout)
        if not self.ts.is_active() and self.server_exc is None:
            self.server_exc = self.ts.saved_exception or Exception("server inactive")
        return self.client_exc is None and self.ts.is_active() and self.tc.is_active()

    def auth(self, username="u", password="pw"):
        self.tc.auth_password(username, password)
        return self.tc.is_authenticated()

    def session(self, timeout=10, **kw):
        c = self.tc.open_session(timeout=timeout, **kw)
        s = self.ts.accept(timeout)
        return c, s

    def close(self):
        for t in (self.tc, self.ts):
            try:
                t.close()
            except Exception:
                pass

    def wait_quiet(self, idle=0.25, timeout=10):
        end = time.monotonic() + timeout
        while time.monotonic() < end:
            if self.link.quiescent(idle):
                return True
            time.sleep(0.02)
        return False

    def msgs(self, side, direction, types=None):
        out = []
        for e in self.rec.snapshot():
            if e.get("kind") == "msg" and e["side"] == side and e["dir"] == direction:
                if types is None or e["type"] in types:
                    out.append(e)
        return out


def wait_for(cond, timeout=5.0, step=0.01):
    end = time.monotonic() + timeout
    while time.monotonic() < end:
        if cond():
            return True
        time.sleep(step)
    return bool(cond())
