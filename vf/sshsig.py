"""Independent SSH signature / key-blob / exchange-hash helpers.

Nothing here calls paramiko: blobs are parsed with `struct`, signatures are
made and verified with `cryptography` / `nacl` directly, mpints are encoded
with `int.to_bytes`.  Used as the oracle side of C06/C07 and as the forging
tool of the scripted peers.
"""
import hashlib
import struct

from cryptography.exceptions import InvalidSignature
from cryptography.hazmat.primitives import hashes, serialization
from cryptography.hazmat.primitives.asymmetric import ec, padding, rsa
from cryptography.hazmat.primitives.asymmetric.utils import (
    decode_dss_signature,
    encode_dss_signature,
)

CERT = "-cert-v01@openssh.com"

RSA_HASH = {"ssh-rsa": hashes.SHA1, "rsa-sha2-256": hashes.SHA256, "rsa-sha2-512": hashes.SHA512}
EC_CURVE = {
    "nistp256": (ec.SECP256R1, hashes.SHA256),
    "nistp384": (ec.SECP384R1, hashes.SHA384),
    "nistp521": (ec.SECP521R1, hashes.SHA512),
}


def base_alg(name):
    """Algorithm name with the OpenSSH certificate suffix removed."""
    return name[: -len(CERT)] if name.endswith(CERT) else name


# ---- wire primitives ------------------------------------------------------
def s(b):
    if isinstance(b, str):
        b = b.encode()
    return struct.pack(">I", len(b)) + bytes(b)


def u32(n):
    return struct.pack(">I", n)


def mpint(n):
    if n == 0:
        return s(b"")
    if n > 0:
        return s(n.to_bytes(n.bit_length() // 8 + 1, "big", signed=True))
    return s(n.to_bytes((~n).bit_length() // 8 + 1, "big", signed=True))


def read_strings(buf, count=None):
    """Split `buf` into its length-prefixed fields; returns (fields, rest)."""
    out = []
    off = 0
    while off < len(buf) and (count is None or len(out) < count):
        if off + 4 > len(buf):
            raise ValueError("truncated length")
        (n,) = struct.unpack(">I", buf[off:off + 4])
        if off + 4 + n > len(buf):
            raise ValueError("truncated field")
        out.append(buf[off + 4:off + 4 + n])
        off += 4 + n
    return out, buf[off:]


def to_int(b):
    return int.from_bytes(b, "big", signed=True) if b else 0


# ---- public key blobs -------------------------------------------------------
class PubKey:
    def __init__(self, family, key, curve=None, blob_type=None):
        self.family = family  # "rsa" | "ecdsa" | "ed25519"
        self.key = key
        self.curve = curve
        self.blob_type = blob_type


def parse_pubkey(blob):
    """Parse a plain (non-certificate) or certificate public key blob into a
    verifier.  For certificates the certified public key is used."""
    fields, _ = read_strings(blob, 1)
    ktype = fields[0].decode("ascii", "replace")
    rest = blob[4 + len(fields[0]):]
    if ktype.endswith(CERT):
        (nonce,), rest = read_strings(rest, 1)
        ktype_base = base_alg(ktype)
    else:
        ktype_base = ktype
    if ktype_base == "ssh-rsa":
        (e, n), _ = read_strings(rest, 2)
        return PubKey("rsa", rsa.RSAPublicNumbers(to_int(e), to_int(n)).public_key(), blob_type=ktype)
    if ktype_base.startswith("ecdsa-sha2-"):
        (cname, point), _ = read_strings(rest, 2)
        cname = cname.decode()
        curve, _h = EC_CURVE[cname]
        return PubKey("ecdsa", ec.EllipticCurvePublicKey.from_encoded_point(curve(), point), curve=cname,
                      blob_type=ktype)
    if ktype_base == "ssh-ed25519":
        (pk,), _ = read_strings(rest, 1)
        import nacl.signing

        return PubKey("ed25519", nacl.signing.VerifyKey(pk), blob_type=ktype)
    raise ValueError("unknown key type %r" % ktype)


def parse_sig(sigblob):
    (name, body), _ = read_strings(sigblob, 2)
    return name.decode("ascii", "replace"), body


def verify(pub, sigblob, data):
    """Independent check of an SSH signature blob (string alg, string sig)
    over `data` under the parsed public key, using the algorithm the blob
    names.  Returns (ok, algorithm_name)."""
    name, body = parse_sig(sigblob)
    try:
        if pub.family == "rsa":
            if name not in RSA_HASH:
                return False, name
            # short signatures are left-padded (some implementations strip zeros)
            klen = (pub.key.key_size + 7) // 8
            if len(body) < klen:
                body = b"\x00" * (klen - len(body)) + body
            pub.key.verify(body, data, padding.PKCS1v15(), RSA_HASH[name]())
            return True, name
        if pub.family == "ecdsa":
            if name != "ecdsa-sha2-" + pub.curve:
                return False, name
            (r, sv), _ = read_strings(body, 2)
            der = encode_dss_signature(to_int(r), to_int(sv))
            pub.key.verify(der, data, ec.ECDSA(EC_CURVE[pub.curve][1]()))
            return True, name
        if pub.family == "ed25519":
            if name != "ssh-ed25519":
                return False, name
            pub.key.verify(data, body)
            return True, name
    except InvalidSignature:
        return False, name
    except Exception as e:  # nacl BadSignatureError, malformed numbers
        if type(e).__name__ in ("BadSignatureError", "ValueError"):
            return False, name
        raise
    return False, name


# ---- signing with raw private keys (for forging peers) -------------------------
def rsa_sign(private_key, data, actual_alg, label=None):
    """SSH signature blob made with the hash of `actual_alg`, labelled
    `label` (default: actual_alg).  `private_key` is a cryptography key."""
    sig = private_key.sign(data, padding.PKCS1v15(), RSA_HASH[actual_alg]())
    return s(label or actual_alg) + s(sig)


def ecdsa_sign(private_key, data, label=None):
    cname = {256: "nistp256", 384: "nistp384", 521: "nistp521"}[private_key.curve.key_size]
    der = private_key.sign(data, ec.ECDSA(EC_CURVE[cname][1]()))
    r, sv = decode_dss_signature(der)
    return s(label or "ecdsa-sha2-" + cname) + s(mpint(r) + mpint(sv))


def ed25519_sign(signing_key, data, label=None):
    """`signing_key` is a nacl.signing.SigningKey."""
    return s(label or "ssh-ed25519") + s(signing_key.sign(data).signature)


# ---- exchange hash (RFC 4253 §8, RFC 4419 §3, RFC 5656 §4, RFC 8731) ------------
KEX_HASH = {
    "diffie-hellman-group1-sha1": hashlib.sha1,
    "diffie-hellman-group14-sha1": hashlib.sha1,
    "diffie-hellman-group14-sha256": hashlib.sha256,
    "diffie-hellman-group16-sha512": hashlib.sha512,
    "diffie-hellman-group-exchange-sha1": hashlib.sha1,
    "diffie-hellman-group-exchange-sha256": hashlib.sha256,
    "ecdh-sha2-nistp256": hashlib.sha256,
    "ecdh-sha2-nistp384": hashlib.sha384,
    "ecdh-sha2-nistp521": hashlib.sha512,
    "curve25519-sha256@libssh.org": hashlib.sha256,
    "curve25519-sha256": hashlib.sha256,
}


def _pub(x):
    return mpint(x) if isinstance(x, int) else s(x)


def exchange_hash(kex, v_c, v_s, i_c, i_s, k_s, client_pub, server_pub, K, gex=None):
    """H for one exchange.  `client_pub`/`server_pub`: int for DH e/f (hashed as
    mpint), bytes for EC / X25519 public values (hashed as string).
    `gex` = (min, n, max, p, g) with p, g ints, for group exchange."""
    h = KEX_HASH[kex]()
    h.update(s(v_c) + s(v_s) + s(i_c) + s(i_s) + s(k_s))
    if gex is not None:
        mn, n, mx, p, g = gex
        if mn is None:  # old-style request (RFC 4419 section 5): only n was sent, only n is hashed
            h.update(u32(n) + mpint(p) + mpint(g))
        else:
            h.update(u32(mn) + u32(n) + u32(mx) + mpint(p) + mpint(g))
    h.update(_pub(client_pub) + _pub(server_pub) + mpint(K))
    return h.digest()
