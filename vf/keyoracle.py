"""Independent oracles and key corpus for the key checks (C35, C36, C37).

Nothing here calls the paramiko function under judgement:

* wire decoding of a signature message is re-implemented from the documented
  `Message` semantics (a short read is zero-padded below 1 MiB);
* RSA PKCS#1 v1.5 verification is done in pure Python (`pow` + EMSA encoding);
* ECDSA is verified by `cryptography` on (r, s) after a range check against
  the curve order; Ed25519 by `cryptography`/OpenSSL (paramiko uses libsodium);
* public blobs are produced by `cryptography`'s OpenSSH public encoder.
"""
import base64
import hashlib
import io
import os
import struct
import traceback

from cryptography.exceptions import InvalidSignature
from cryptography.hazmat.primitives import hashes, serialization
from cryptography.hazmat.primitives.asymmetric import ec, ed25519, rsa
from cryptography.hazmat.primitives.asymmetric.utils import encode_dss_signature

from vf import core

TESTS = os.path.join(core.TREE, "tests")
SUPPORT = os.path.join(TESTS, "_support")

# --------------------------------------------------------------------------
# exception signatures
# --------------------------------------------------------------------------
HELPER_MODULES = ("util", "message")


def exc_sig(exc, tree=None):
    """core.exc_signature plus, when the innermost paramiko frame is a generic
    helper (util.py / message.py), `<-module.function` of the nearest enclosing
    paramiko frame that is not a helper: names the call site, i.e. the mechanism."""
    base = core.exc_signature(exc, tree)
    mod_ = type(exc).__module__
    if mod_ not in ("builtins", "exceptions") and not mod_.startswith("paramiko"):
        base = mod_.split(".")[0] + "." + base  # e.g. binascii.Error, not just "Error"
    tree = tree or core.TREE
    root = os.path.join(tree, "paramiko") + os.sep
    frames = [f for f in traceback.extract_tb(exc.__traceback__) if f.filename.startswith(root)]
    if not frames:
        return base
    mod = os.path.basename(frames[-1].filename)[:-3]
    if mod not in HELPER_MODULES:
        return base
    for fr in reversed(frames[:-1]):
        m = os.path.basename(fr.filename)[:-3]
        if m not in HELPER_MODULES:
            return "%s<-%s.%s" % (base, m, fr.name)
    return base


# --------------------------------------------------------------------------
# guard against minutes-long cases: util.inflate_long is quadratic in the length of the string it is
# given, and Message.get_bytes zero-pads a short read up to 1 MiB, so a 4-byte length field saying
# 512 KiB in front of an mpint costs minutes (1 MiB - 1: ~10 min). Such cases are skipped and counted
# (like bcrypt rounds > 64), never judged.
# --------------------------------------------------------------------------
class SkipSlow(BaseException):
    """BaseException so that no `except Exception` in the code under test eats it."""


INFLATE_STATS = dict(calls=0, skipped=0)


def install_inflate_guard(limit=1 << 15):
    import paramiko.util as pu

    if getattr(pu.inflate_long, "_vf_guard", False):
        return
    real = pu.inflate_long

    def inflate_long(s, always_positive=False):
        INFLATE_STATS["calls"] += 1
        if len(s) > limit:
            INFLATE_STATS["skipped"] += 1
            raise SkipSlow("inflate_long on %d bytes" % len(s))
        return real(s, always_positive)

    inflate_long._vf_guard = True
    pu.inflate_long = inflate_long


# --------------------------------------------------------------------------
# wire decoding (documented Message semantics, re-implemented)
# --------------------------------------------------------------------------
class Reader:
    def __init__(self, buf):
        self.buf = bytes(buf)
        self.pos = 0

    def raw(self, n):
        s = self.buf[self.pos:self.pos + n]
        self.pos = min(len(self.buf), self.pos + n)
        if len(s) < n < (1 << 20):
            s = s + b"\x00" * (n - len(s))
        return s

    def u32(self):
        return struct.unpack(">I", self.raw(4))[0]

    def string(self):
        return self.raw(self.u32())

    def mpint(self):
        s = self.string()
        return int.from_bytes(s, "big", signed=True) if s else 0


def w_string(s):
    if isinstance(s, str):
        s = s.encode()
    return struct.pack(">I", len(s)) + s


def w_mpint(n, extra_zero=0):
    if n == 0:
        body = b""
    elif n > 0:
        body = n.to_bytes(n.bit_length() // 8 + 1, "big", signed=True)
    else:
        body = n.to_bytes((~n).bit_length() // 8 + 1, "big", signed=True)
    if extra_zero and n >= 0:
        body = b"\x00" * extra_zero + body
    return w_string(body)


def sig_message(name, blob):
    return w_string(name) + w_string(blob)


def ecdsa_blob(r, s, **kw):
    return w_mpint(r, **kw) + w_mpint(s, **kw)


# --------------------------------------------------------------------------
# reference verification
# --------------------------------------------------------------------------
RSA_HASH = {"ssh-rsa": "sha1", "rsa-sha2-256": "sha256", "rsa-sha2-512": "sha512"}
# accepted by paramiko as aliases (cert-flavoured names); not part of RFC 8332 signature names
RSA_ALIAS = {k + "-cert-v01@openssh.com": v for k, v in RSA_HASH.items()}
DIGESTINFO = {
    "sha1": bytes.fromhex("3021300906052b0e03021a05000414"),
    "sha256": bytes.fromhex("3031300d060960864801650304020105000420"),
    "sha512": bytes.fromhex("3051300d060960864801650304020305000440"),
}
CURVES = {
    256: dict(name="nistp256", hash=hashes.SHA256, cls=ec.SECP256R1,
              order=0xFFFFFFFF00000000FFFFFFFFFFFFFFFFBCE6FAADA7179E84F3B9CAC2FC632551),
    384: dict(name="nistp384", hash=hashes.SHA384, cls=ec.SECP384R1,
              order=0xFFFFFFFFFFFFFFFFFFFFFFFFFFFFFFFFFFFFFFFFFFFFFFFFC7634D81F4372DDF581A0DB248B0A77AECEC196ACCC52973),
    521: dict(name="nistp521", hash=hashes.SHA512, cls=ec.SECP521R1,
              order=int("1FF" + "FFFFFFFF" * 7 + "FFFFFFFA" "51868783" "BF2F966B" "7FCC0148" "F709A5D0"
                        "3BB5C9B8" "899C47AE" "BB6FB71E" "91386409", 16)),
}


def selfcheck():
    """The oracle's own constants: curve orders (n-1 is a valid scalar, n is not) and the RSA
    reference verifier against a signature made by cryptography."""
    from cryptography.hazmat.primitives.asymmetric import padding

    for bits, c in CURVES.items():
        ec.derive_private_key(c["order"] - 1, c["cls"]())
        try:
            ec.derive_private_key(c["order"], c["cls"]())
        except ValueError:
            pass
        else:
            raise AssertionError("curve order constant for %d is wrong" % bits)
    k = rsa.generate_private_key(65537, 1024)
    for hn, h in (("sha1", hashes.SHA1), ("sha256", hashes.SHA256), ("sha512", hashes.SHA512)):
        sig = k.sign(b"selfcheck", padding.PKCS1v15(), h())
        if not rsa_ref_verify(k.public_key(), b"selfcheck", hn, sig):
            raise AssertionError("reference RSA verifier rejects a %s signature" % hn)
        if rsa_ref_verify(k.public_key(), b"selfchecl", hn, sig):
            raise AssertionError("reference RSA verifier accepts a forged %s signature" % hn)
    return True


def kind_of(pub):
    if isinstance(pub, rsa.RSAPublicKey):
        return "rsa"
    if isinstance(pub, ec.EllipticCurvePublicKey):
        return "ecdsa%d" % pub.curve.key_size
    if isinstance(pub, ed25519.Ed25519PublicKey):
        return "ed25519"
    raise TypeError(pub)


def rsa_ref_verify(pub, data, hashname, blob):
    nums = pub.public_numbers()
    n, e = nums.n, nums.e
    k = (n.bit_length() + 7) // 8
    s = int.from_bytes(blob, "big")
    if s >= n:
        return False
    em = pow(s, e, n).to_bytes(k, "big")
    t = DIGESTINFO[hashname] + hashlib.new(hashname, data).digest()
    if k < len(t) + 11:
        return False
    return em == b"\x00\x01" + b"\xff" * (k - len(t) - 3) + b"\x00" + t


def decode_sig(pub, sigbytes):
    """Decoded content of an SSH signature for a key of pub's kind:
    (name_bytes, content) where content is what the algorithm consumes."""
    rd = Reader(sigbytes)
    name = rd.string()
    blob = rd.string()
    k = kind_of(pub)
    if k == "rsa":
        return name, int.from_bytes(blob, "big")
    if k.startswith("ecdsa"):
        r2 = Reader(blob)
        return name, (r2.mpint(), r2.mpint())
    return name, blob


def ref_verify(pub, data, sigbytes):
    """True / False by independent verification; 'alias' when the algorithm name is a
    paramiko-specific alias this oracle does not judge."""
    name, content = decode_sig(pub, sigbytes)
    k = kind_of(pub)
    try:
        name = name.decode("utf-8")
    except UnicodeDecodeError:
        return False
    if k == "rsa":
        if name in RSA_ALIAS:
            return "alias"
        if name not in RSA_HASH:
            return False
        rd = Reader(sigbytes)
        rd.string()
        return rsa_ref_verify(pub, data, RSA_HASH[name], rd.string())
    if k.startswith("ecdsa"):
        c = CURVES[pub.curve.key_size]
        if name != "ecdsa-sha2-" + c["name"]:
            return False
        r, s = content
        if not (1 <= r < c["order"] and 1 <= s < c["order"]):
            return False
        try:
            pub.verify(encode_dss_signature(r, s), data, ec.ECDSA(c["hash"]()))
            return True
        except InvalidSignature:
            return False
    if name != "ssh-ed25519":
        return False
    if len(content) != 64:
        return False
    try:
        pub.verify(content, data)
        return True
    except InvalidSignature:
        return False


def ref_blob(pub):
    """SSH public blob by cryptography's own OpenSSH encoder."""
    line = pub.public_bytes(serialization.Encoding.OpenSSH, serialization.PublicFormat.OpenSSH)
    return base64.b64decode(line.split()[1])


def blob_name(blob):
    return Reader(blob).string().decode()


def load_private_independent(data, password=None):
    """cryptography private key object from key file bytes (no paramiko involved)."""
    if isinstance(password, str):
        password = password.encode()
    if b"BEGIN OPENSSH PRIVATE KEY" in data:
        return serialization.load_ssh_private_key(data, password=password)
    return serialization.load_pem_private_key(data, password=password)


# --------------------------------------------------------------------------
# key corpus
# --------------------------------------------------------------------------
# (file, class name, password, cert file or None)
BUNDLED = [
    ("_support/rsa.key", "RSAKey", None, "_support/rsa.key-cert.pub"),
    ("_support/rsa-lonely.key", "RSAKey", None, None),
    ("test_rsa_password.key", "RSAKey", "television", None),
    ("test_rsa_openssh.key", "RSAKey", "television", None),
    ("test_rsa_openssh_nopad.key", "RSAKey", None, None),
    ("_support/ecdsa-256.key", "ECDSAKey", None, "_support/ecdsa-256.key-cert.pub"),
    ("test_ecdsa_384.key", "ECDSAKey", None, None),
    ("test_ecdsa_521.key", "ECDSAKey", None, None),
    ("test_ecdsa_password_256.key", "ECDSAKey", "television", None),
    ("test_ecdsa_password_384.key", "ECDSAKey", "television", None),
    ("test_ecdsa_password_521.key", "ECDSAKey", "television", None),
    ("test_ecdsa_384_openssh.key", "ECDSAKey", "television", None),
    ("_support/ed25519.key", "Ed25519Key", None, "_support/ed25519.key-cert.pub"),
    ("test_ed25519_password.key", "Ed25519Key", "abc123", None),
    ("test_ed25519-funky-padding.key", "Ed25519Key", None, None),
    ("test_ed25519-funky-padding_password.key", "Ed25519Key", "asdf", None),
    ("badhash_key1.ed25519.key", "Ed25519Key", None, None),
    ("badhash_key2.ed25519.key", "Ed25519Key", None, None),
]


def bundled_path(rel):
    return os.path.join(TESTS, rel)


def gen_private(kind, rng=None):
    """Fresh cryptography private key: kind = 'rsa<bits>' | 'ecdsa<bits>' | 'ed25519'."""
    if kind.startswith("rsa"):
        return rsa.generate_private_key(65537, int(kind[3:]))
    if kind.startswith("ecdsa"):
        c = CURVES[int(kind[5:])]
        if rng is not None:
            return ec.derive_private_key(rng.randrange(1, c["order"]), c["cls"]())
        return ec.generate_private_key(c["cls"]())
    if kind == "ed25519":
        if rng is not None:
            return ed25519.Ed25519PrivateKey.from_private_bytes(bytes(rng.getrandbits(8) for _ in range(32)))
        return ed25519.Ed25519PrivateKey.generate()
    raise ValueError(kind)


def serialize_private(priv, fmt, password=None, rounds=None):
    """PEM text of a cryptography private key; fmt = 'pem' (TraditionalOpenSSL) | 'openssh'."""
    if fmt == "pem":
        enc = serialization.NoEncryption() if password is None else serialization.BestAvailableEncryption(password)
        return priv.private_bytes(serialization.Encoding.PEM, serialization.PrivateFormat.TraditionalOpenSSL, enc)
    if password is None:
        enc = serialization.NoEncryption()
    else:
        bld = serialization.PrivateFormat.OpenSSH.encryption_builder()
        if rounds is not None:
            bld = bld.kdf_rounds(rounds)
        enc = bld.build(password)
    return priv.private_bytes(serialization.Encoding.PEM, serialization.PrivateFormat.OpenSSH, enc)


def key_class(kind_or_name):
    import paramiko

    if kind_or_name in ("RSAKey", "ECDSAKey", "Ed25519Key"):
        return getattr(paramiko, kind_or_name)
    if kind_or_name.startswith("rsa"):
        return paramiko.RSAKey
    if kind_or_name.startswith("ecdsa"):
        return paramiko.ECDSAKey
    return paramiko.Ed25519Key


class Family:
    """All paramiko objects obtained in different ways for one key, plus the
    independent public key (`pub`) and its independent blob."""

    def __init__(self, label, pub):
        self.label = label
        self.pub = pub
        self.kind = kind_of(pub)
        self.blob = ref_blob(pub)
        self.objs = []  # (origin, paramiko key)
        self.cert_blob = None

    def add(self, origin, obj):
        self.objs.append((origin, obj))

    def signers(self):
        return [(o, k) for o, k in self.objs if k.can_sign()]


def public_objects(fam, cls):
    import paramiko
    from paramiko.message import Message

    fam.add("public-bytes", cls(data=fam.blob))
    fam.add("public-msg", cls(msg=Message(fam.blob)))
    fam.add("from_type_string", paramiko.PKey.from_type_string(blob_name(fam.blob), fam.blob))


def family_from_file(rel, clsname, password, cert):
    import paramiko

    cls = key_class(clsname)
    path = bundled_path(rel)
    with open(path, "rb") as f:
        raw = f.read()
    pub = load_private_independent(raw, password).public_key()
    fam = Family("bundled:" + rel, pub)
    fam.add("private-file", cls.from_private_key_file(path, password))
    with open(path) as f:
        fam.add("private-fileobj", cls.from_private_key(f, password))
    public_objects(fam, cls)
    if cert:
        cpath = bundled_path(cert)
        k = cls.from_private_key_file(path, password)
        k.load_certificate(cpath)
        fam.add("private-file+cert", k)
        fam.add("from_path", paramiko.PKey.from_path(path, passphrase=password.encode() if password else None))
        blob = paramiko.pkey.PublicBlob.from_file(cpath).key_blob
        fam.cert_blob = blob
        fam.add("cert-blob-public", cls(data=blob))
    return fam


def family_generated(kind, rng=None, via="paramiko"):
    """via='paramiko': RSAKey.generate / ECDSAKey.generate; via='file': fresh cryptography key
    written as PEM / OpenSSH text and loaded through from_private_key."""
    import paramiko

    cls = key_class(kind)
    if via == "paramiko" and kind != "ed25519":
        if kind.startswith("rsa"):
            k = paramiko.RSAKey.generate(int(kind[3:]))
            pub = k.key.public_key()
        else:
            k = paramiko.ECDSAKey.generate(bits=int(kind[5:]))
            pub = k.signing_key.public_key()
        fam = Family("generated:" + kind, pub)
        fam.add("generated", k)
        buf = io.StringIO()
        k.write_private_key(buf)
        fam.add("generated-written-loaded", cls.from_private_key(io.StringIO(buf.getvalue())))
    else:
        priv = gen_private(kind, rng)
        fam = Family("fresh-file:" + kind, priv.public_key())
        fmts = ["openssh"] if kind == "ed25519" else ["pem", "openssh"]
        for fmt in fmts:
            text = serialize_private(priv, fmt).decode()
            fam.add("private-fileobj-" + fmt, cls.from_private_key(io.StringIO(text)))
    public_objects(fam, cls)
    return fam


def family_from_private(priv, label):
    """Family for a given cryptography private key: the paramiko object built from the numbers
    (RSAKey(key=) / ECDSAKey(vals=)), objects loaded from PEM / OpenSSH-format text, and the public objects."""
    import paramiko

    kind = kind_of(priv.public_key())
    cls = key_class(kind)
    fam = Family(label, priv.public_key())
    if kind == "rsa":
        fam.add("built-from-numbers", paramiko.RSAKey(key=priv))
    elif kind.startswith("ecdsa"):
        fam.add("built-from-numbers", paramiko.ECDSAKey(vals=(priv, priv.public_key())))
    for fmt in (["openssh"] if kind == "ed25519" else ["pem", "openssh"]):
        fam.add("private-fileobj-" + fmt, cls.from_private_key(io.StringIO(serialize_private(priv, fmt).decode())))
    public_objects(fam, cls)
    return fam


DATA = os.path.join(os.path.dirname(os.path.abspath(__file__)), "data")


def short_coordinate_keys():
    """[(label, category, cryptography private key)] from vf/data/short_coordinate_keys.json, each re-checked:
    ECDSA keys whose x and/or y has leading zero byte(s) at the fixed width, Ed25519 public keys starting 0x00."""
    import json

    with open(os.path.join(DATA, "short_coordinate_keys.json")) as f:
        data = json.load(f)
    out = []
    for bits_s, cats in sorted(data["ecdsa"].items()):
        bits = int(bits_s)
        nb = (bits + 7) // 8
        for cat, scalars in sorted(cats.items()):
            for d in scalars:
                priv = ec.derive_private_key(d, CURVES[bits]["cls"]())
                n = priv.public_key().public_numbers()
                zx = nb - (n.x.bit_length() + 7) // 8
                zy = nb - (n.y.bit_length() + 7) // 8
                ok = dict(x=zx >= 1 and zy == 0, y=zy >= 1 and zx == 0, both=zx >= 1 and zy >= 1, x2=zx >= 2, y2=zy >= 2)[cat]
                if not ok:
                    raise AssertionError("cached scalar %d on P-%d is not of category %s" % (d, bits, cat))
                out.append(("short-coordinate:ecdsa%d:%s:d=%d" % (bits, cat, d), "ecdsa%d:%s" % (bits, cat), priv))
    for cat, idxs in sorted(data["ed25519"].items()):
        for i in idxs:
            seed = hashlib.sha256(b"vf-ed25519-%d" % i).digest()
            priv = ed25519.Ed25519PrivateKey.from_private_bytes(seed)
            raw = priv.public_key().public_bytes(serialization.Encoding.Raw, serialization.PublicFormat.Raw)
            if raw[: 2 if "two" in cat else 1].strip(b"\x00"):
                raise AssertionError("cached Ed25519 seed %d is not of category %s" % (i, cat))
            out.append(("short-coordinate:ed25519:%s:i=%d" % (cat, i), "ed25519:" + cat, priv))
    return out


def rsa_with_exponent(e, bits=1024, tries=40):
    """RSA private key (cryptography) with a chosen public exponent, e.g. one whose mpint needs a sign byte
    (0x81, 0x8001, 0x800001): p, q are taken from a freshly generated key, d is recomputed."""
    import math

    for _ in range(tries):
        base = rsa.generate_private_key(65537, bits).private_numbers()
        p, q = base.p, base.q
        lam = (p - 1) * (q - 1) // math.gcd(p - 1, q - 1)
        if math.gcd(e, lam) != 1:
            continue
        d = pow(e, -1, lam)
        nums = rsa.RSAPrivateNumbers(p=p, q=q, d=d, dmp1=d % (p - 1), dmq1=d % (q - 1), iqmp=pow(q, -1, p),
                                     public_numbers=rsa.RSAPublicNumbers(e, p * q))
        return nums.private_key()
    raise ValueError("no RSA key with e=%d found" % e)
