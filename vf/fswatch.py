"""File-creation monitor for C36: `sys.addaudithook` ('open', 'os.chmod', 'os.fchmod'
events) plus a wrapped `os.open` that fstat()s the descriptor it just obtained, so the
mode a key file has *at the instant it is created* is observed, not inferred.

Only events for the armed target path are recorded. The audit hook cannot be removed,
so one watcher is installed per process and armed/disarmed per case.
"""
import os
import stat
import sys
import threading

_lock = threading.Lock()
_watch = None


class OpenWatch:
    def __init__(self):
        self.target = None
        self.events = []
        self._in_os_open = 0
        self._real_os_open = os.open
        self.total_audit_open_events = 0

    # -- installation -----------------------------------------------------
    def install(self):
        sys.addaudithook(self._hook)
        real = self._real_os_open
        watch = self

        def os_open(path, flags, mode=0o777, *, dir_fd=None):
            mine = watch._is_target(path)
            if not mine:
                return real(path, flags, mode, dir_fd=dir_fd) if dir_fd is not None else real(path, flags, mode)
            existed = os.path.lexists(path)
            watch._in_os_open += 1
            try:
                fd = real(path, flags, mode, dir_fd=dir_fd) if dir_fd is not None else real(path, flags, mode)
            finally:
                watch._in_os_open -= 1
            st = os.fstat(fd)
            watch.events.append(dict(ev="os.open", flags=flags, requested_mode=mode, existed=existed,
                                     created=bool(flags & os.O_CREAT) and not existed,
                                     mode_at_open=stat.S_IMODE(st.st_mode), umask=watch.umask))
            return fd

        os_open.__wrapped__ = real
        os.open = os_open

    def _is_target(self, path):
        if self.target is None:
            return False
        try:
            return os.path.abspath(os.fspath(path)) == self.target
        except TypeError:
            return False

    def _hook(self, event, args):
        if self.target is None:
            return
        if event == "open":
            self.total_audit_open_events += 1
            path, mode, flags = args
            if isinstance(path, int) or not self._is_target(path):
                return
            creating = bool(flags & os.O_CREAT)
            existed = os.path.lexists(self.target)
            self.events.append(dict(ev="audit-open", pymode=mode, flags=flags, via_os_open=bool(self._in_os_open),
                                    existed=existed, created=creating and not existed, umask=self.umask))
        elif event in ("os.chmod", "os.fchmod"):
            path = args[0]
            if isinstance(path, int) or self._is_target(path):
                self.events.append(dict(ev=event, arg=path if isinstance(path, int) else "target", mode=args[1]))

    # -- per case ----------------------------------------------------------
    def arm(self, path, umask):
        self.target = os.path.abspath(path)
        self.umask = umask
        self.events = []

    def disarm(self):
        ev = self.events
        self.target = None
        self.events = []
        return ev


def get():
    global _watch
    with _lock:
        if _watch is None:
            _watch = OpenWatch()
            _watch.install()
        return _watch


def creation_modes(events):
    """[(how, mode the file had when it came into existence)] for every open that created the target.
    A creating open that did not go through os.open (builtin open()) has no explicit mode: the kernel
    applies 0o666 & ~umask."""
    out = []
    for e in events:
        if e["ev"] == "os.open" and e["created"]:
            out.append(("os.open", e["mode_at_open"]))
        elif e["ev"] == "audit-open" and e["created"] and not e["via_os_open"]:
            out.append(("open() without explicit mode", 0o666 & ~e["umask"]))
    return out
