"""Append entries to known_findings.json (used by hand by the maintainer of /verif, never by a check).
   python -m vf.kf fixed C05 e383b23 "signature" "what failed"
   python -m vf.kf known C22 - "signature" "what fails"
"""
import json, os, sys
HOME = os.path.dirname(os.path.dirname(os.path.abspath(__file__)))
def main():
    status, prop, commit, sig, what = sys.argv[1:6]
    p = os.path.join(HOME, "known_findings.json")
    d = json.load(open(p))
    for e in d["findings"]:
        if e["property"] == prop and e["signature"] == sig:
            e.update(status=status, what=("fixed: property=%s %s %s" % (prop, commit, what)) if status == "fixed" else what)
            if status == "fixed": e["commit"] = commit
            break
    else:
        e = dict(property=prop, status=status, signature=sig,
                 what=("fixed: property=%s %s %s" % (prop, commit, what)) if status == "fixed" else what)
        if status == "fixed": e["commit"] = commit
        d["findings"].append(e)
    json.dump(d, open(p, "w"), indent=1)
main()
