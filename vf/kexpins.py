"""Pinned ephemeral key pairs whose shared secret has leading zero bytes.

Such secrets are rare (2^-9 .. 2^-17 per exchange), so they are searched once, offline
(`python -m vf.kexpins --generate`, ~1 min) and cached in `vf/data/kex_pins.json`.  At run time the
pinned scalars are injected into two *real* transports by replacing only the private-key generation the
kex engines call (`kex_curve25519.X25519PrivateKey.generate`, `kex_ecdh_nist.ec.generate_private_key`,
`KexGroup1._generate_x`, `KexGex._generate_x`); everything else is the unmodified engine.  The expected
shared secret stored in the file was computed with `cryptography` / `pow`, never with paramiko.

Leading-byte classes of the raw (fixed-length) secret:
  z1_lo  00 [01-7f] ..      one zero byte, mpint needs no sign byte
  z1_hi  00 [80-ff] ..      one zero byte, mpint needs a 00 sign byte
  z2_lo  00 00 [01-7f] ..   two zero bytes
  z2_hi  00 00 [80-ff] ..   two zero bytes + sign byte
"""
import json
import os
import threading

from cryptography.hazmat.primitives.asymmetric import ec
from cryptography.hazmat.primitives.asymmetric.x25519 import X25519PrivateKey, X25519PublicKey
from cryptography.hazmat.primitives import serialization

DATA = os.path.join(os.path.dirname(os.path.abspath(__file__)), "data", "kex_pins.json")
CLASSES = ("z1_lo", "z1_hi", "z2_lo", "z2_hi")
CURVES = {"nistp256": ec.SECP256R1, "nistp384": ec.SECP384R1, "nistp521": ec.SECP521R1}

# which pin group a kex method uses
GROUP_OF = {
    "curve25519-sha256@libssh.org": "curve25519",
    "ecdh-sha2-nistp256": "nistp256",
    "ecdh-sha2-nistp384": "nistp384",
    "ecdh-sha2-nistp521": "nistp521",
    "diffie-hellman-group1-sha1": "group1",
    "diffie-hellman-group14-sha1": "group14",
    "diffie-hellman-group14-sha256": "group14",
    "diffie-hellman-group16-sha512": "group16",
    "diffie-hellman-group-exchange-sha1": "group14",  # the harness moduli pack serves the group14 prime for 2048 bits
    "diffie-hellman-group-exchange-sha256": "group14",
}


def classify(raw):
    if len(raw) < 4 or raw[0] != 0:
        return None
    if raw[1] != 0:
        return "z1_lo" if raw[1] < 0x80 else "z1_hi"
    if raw[2] != 0:
        return "z2_lo" if raw[2] < 0x80 else "z2_hi"
    return None


def load():
    with open(DATA) as f:
        return json.load(f)


# ---- run-time injection ---------------------------------------------------------------------------
_registry = {}  # id(transport) -> list of pinned private values (one per exchange, consumed in order)
_lock = threading.Lock()
_installed = False


def pin(transport, values):
    with _lock:
        _registry[id(transport)] = list(values)


def unpin(transport):
    with _lock:
        _registry.pop(id(transport), None)


def _take(transport):
    with _lock:
        lst = _registry.get(id(transport))
        if lst:
            return lst.pop(0)
    return None


def install():
    """Idempotent.  Only private-key generation is redirected, and only for transports that were pinned."""
    global _installed
    if _installed:
        return
    _installed = True
    import paramiko.kex_curve25519 as k25519
    import paramiko.kex_ecdh_nist as kecdh
    from paramiko.kex_gex import KexGex
    from paramiko.kex_group1 import KexGroup1

    real_x = k25519.X25519PrivateKey

    class X25519Shim:
        @staticmethod
        def generate():
            v = _take(threading.current_thread())
            if v is not None:
                return real_x.from_private_bytes(bytes.fromhex(v))
            return real_x.generate()

        from_private_bytes = staticmethod(real_x.from_private_bytes)

    k25519.X25519PrivateKey = X25519Shim

    real_ec = kecdh.ec

    class EcShim:
        def __getattr__(self, name):
            return getattr(real_ec, name)

        @staticmethod
        def generate_private_key(curve, backend=None):
            v = _take(threading.current_thread())
            if v is not None:
                return real_ec.derive_private_key(int(v, 16), curve)
            return real_ec.generate_private_key(curve)

    kecdh.ec = EcShim()

    for cls in (KexGroup1, KexGex):
        orig = cls._generate_x

        def gen(self, _o=orig):
            v = _take(self.transport)
            if v is not None:
                self.x = int(v, 16)
                return
            return _o(self)

        cls._generate_x = gen


# ---- offline search ----------------------------------------------------------------------------------
def _search_x25519(want, per_class, max_tries):
    out = {c: [] for c in want}
    s_bytes = os.urandom(32)
    s_key = X25519PrivateKey.from_private_bytes(s_bytes)
    s_pub = s_key.public_key()
    for _ in range(max_tries):
        if all(len(out[c]) >= per_class for c in want):
            break
        c_bytes = os.urandom(32)
        raw = X25519PrivateKey.from_private_bytes(c_bytes).exchange(s_pub)
        cl = classify(raw)
        if cl in out and len(out[cl]) < per_class:
            # cross-check from the server's side
            c_pub = X25519PrivateKey.from_private_bytes(c_bytes).public_key()
            assert s_key.exchange(c_pub) == raw
            out[cl].append(dict(client=c_bytes.hex(), server=s_bytes.hex(), K=raw.hex()))
    return out


def _search_ec(curve_name, want, per_class, max_tries):
    out = {c: [] for c in want}
    curve = CURVES[curve_name]()
    s_key = ec.generate_private_key(curve)
    s_val = s_key.private_numbers().private_value
    s_pub = s_key.public_key()
    for _ in range(max_tries):
        if all(len(out[c]) >= per_class for c in want):
            break
        c_key = ec.generate_private_key(curve)
        raw = c_key.exchange(ec.ECDH(), s_pub)
        cl = classify(raw)
        if cl in out and len(out[cl]) < per_class:
            assert s_key.exchange(ec.ECDH(), c_key.public_key()) == raw
            out[cl].append(dict(client="%x" % c_key.private_numbers().private_value, server="%x" % s_val, K=raw.hex()))
    return out


def _search_dh(p, g, want, per_class, max_tries):
    out = {c: [] for c in want}
    size = (p.bit_length() + 7) // 8
    y = int.from_bytes(os.urandom(40), "big") | 1 << 300
    f = pow(g, y, p)
    for _ in range(max_tries):
        if all(len(out[c]) >= per_class for c in want):
            break
        x = int.from_bytes(os.urandom(40), "big") | 1 << 300
        k = pow(f, x, p)
        raw = k.to_bytes(size, "big")
        cl = classify(raw)
        if cl in out and len(out[cl]) < per_class:
            assert pow(pow(g, x, p), y, p) == k
            out[cl].append(dict(client="%x" % x, server="%x" % y, K=raw.hex()))
    return out


def generate():
    from paramiko.kex_group1 import KexGroup1
    from paramiko.kex_group14 import KexGroup14
    from paramiko.kex_group16 import KexGroup16SHA512

    pins = {}
    pins["curve25519"] = _search_x25519(CLASSES, 2, 1 << 21)
    pins["nistp256"] = _search_ec("nistp256", CLASSES, 1, 1 << 19)
    pins["nistp384"] = _search_ec("nistp384", ("z1_lo", "z1_hi"), 1, 1 << 13)
    pins["nistp521"] = _search_ec("nistp521", CLASSES, 1, 1 << 14)
    pins["group1"] = _search_dh(KexGroup1.P, 2, ("z1_lo", "z1_hi"), 1, 1 << 13)
    pins["group14"] = _search_dh(KexGroup14.P, 2, ("z1_lo", "z1_hi"), 1, 1 << 13)
    pins["group16"] = _search_dh(KexGroup16SHA512.P, 2, ("z1_lo", "z1_hi"), 1, 1 << 13)
    os.makedirs(os.path.dirname(DATA), exist_ok=True)
    with open(DATA, "w") as f:
        json.dump(pins, f, indent=1, sort_keys=True)
    return pins


if __name__ == "__main__":
    import sys
    import time

    if "--generate" in sys.argv:
        t = time.time()
        p = generate()
        for g, cl in sorted(p.items()):
            print(g, {c: len(v) for c, v in cl.items()})
        print("%.1f s -> %s" % (time.time() - t, DATA))
