"""Handshake laboratory shared by C06 / C07 / C09: honest pairs with a forced
kex method and host-key algorithm, K/H/session-id capture on both peers, the
server-reply parser, an RFC exchange-hash oracle fed from tap records, a
moduli file for group exchange, and a tap that also records the sequence
number of reads that fail.
"""
import contextlib
import os
import shutil
import struct
import tempfile
import threading

import paramiko
from paramiko.transport import Transport

from vf import keys, net, pair, sshsig, tap

KEXES = (
    "curve25519-sha256@libssh.org",
    "ecdh-sha2-nistp256",
    "ecdh-sha2-nistp384",
    "ecdh-sha2-nistp521",
    "diffie-hellman-group1-sha1",
    "diffie-hellman-group14-sha1",
    "diffie-hellman-group14-sha256",
    "diffie-hellman-group16-sha512",
    "diffie-hellman-group-exchange-sha1",
    "diffie-hellman-group-exchange-sha256",
)
HOSTALGS = (
    "ssh-rsa",
    "rsa-sha2-256",
    "rsa-sha2-512",
    "ecdsa-sha2-nistp256",
    "ecdsa-sha2-nistp384",
    "ecdsa-sha2-nistp521",
    "ssh-ed25519",
)
# rough relative cost of one handshake (used to balance shards / sample in quick)
KEX_COST = {
    "diffie-hellman-group16-sha512": 8,
    "diffie-hellman-group-exchange-sha1": 3,
    "diffie-hellman-group-exchange-sha256": 3,
    "diffie-hellman-group14-sha1": 2,
    "diffie-hellman-group14-sha256": 2,
}


def is_gex(kex):
    return "group-exchange" in kex


def is_dh(kex):
    return kex.startswith("diffie-hellman")


def reply_type(kex):
    return 33 if is_gex(kex) else 31


def init_type(kex):
    return 32 if is_gex(kex) else 30


# ---- keys ---------------------------------------------------------------------
_key_cache = {}


def hostkey(alg, idx=0):
    """Private host key for `alg`; idx 0/1 give two different keys of the same
    type (bundled files where they exist, generated otherwise)."""
    base = sshsig.base_alg(alg)
    fam = "rsa" if base in ("ssh-rsa", "rsa-sha2-256", "rsa-sha2-512") else base
    k = _key_cache.get((fam, idx))
    if k is not None:
        return k
    T = keys.TESTS
    if fam == "rsa":
        k = keys.rsa() if idx == 0 else paramiko.RSAKey.from_private_key_file(os.path.join(T, "test_rsa_openssh_nopad.key"))
    elif fam == "ecdsa-sha2-nistp256":
        k = keys.ecdsa(256, idx)
    elif fam == "ecdsa-sha2-nistp384":
        k = (paramiko.ECDSAKey.from_private_key_file(os.path.join(T, "test_ecdsa_384.key")) if idx == 0
             else paramiko.ECDSAKey.generate(bits=384))
    elif fam == "ecdsa-sha2-nistp521":
        k = (paramiko.ECDSAKey.from_private_key_file(os.path.join(T, "test_ecdsa_521.key")) if idx == 0
             else paramiko.ECDSAKey.generate(bits=521))
    elif fam == "ssh-ed25519":
        k = keys.ed25519(idx)
    else:
        raise ValueError(alg)
    _key_cache[(fam, idx)] = k
    return k


# ---- moduli ---------------------------------------------------------------------
CURRENT_PACK = None  # pack of the innermost server_moduli() context; Lab also sets it on the server *instance*,
# because Transport.stop_thread() resets the class attribute whenever any transport is closed


@contextlib.contextmanager
def server_moduli(groups=("14",)):
    """Load a moduli pack (RFC 3526 MODP primes taken from the tree's own
    kex_group14 / kex_group16 modules) through the public
    `Transport.load_server_moduli`.  The pack is a process-wide class
    attribute: it is reset on exit."""
    from paramiko.kex_group1 import KexGroup1
    from paramiko.kex_group14 import KexGroup14
    from paramiko.kex_group16 import KexGroup16SHA512

    # "1" = 1024-bit Oakley group 2, "14"/"16" = RFC 3526 2048/4096 bit, "18" = RFC 3526 8192 bit (computed from
    # the RFC formula, checked against the tree's 2048/4096 constants and Miller-Rabin, cached in vf/data/)
    primes = {"1": KexGroup1.P, "14": KexGroup14.P, "16": KexGroup16SHA512.P}
    if "18" in groups:
        with open(os.path.join(os.path.dirname(os.path.abspath(__file__)), "data", "modp8192.hex")) as f:
            primes["18"] = int(f.read().strip(), 16)
    d = tempfile.mkdtemp(prefix="vf-moduli-")
    fn = os.path.join(d, "moduli")
    global CURRENT_PACK
    prev = Transport._modulus_pack
    prev_cur = CURRENT_PACK
    try:
        with open(fn, "w") as f:
            f.write("# time type tests tries size generator modulus\n")
            for g in groups:
                p = primes[g]
                f.write("20260921000000 2 6 100 %d 2 %X\n" % (p.bit_length() - 1, p))
        ok = Transport.load_server_moduli(fn)
        pack = Transport._modulus_pack
        if not ok or pack is None or not pack.pack:
            raise RuntimeError("moduli file was not accepted by ModulusPack")
        CURRENT_PACK = pack
        yield pack
    finally:
        Transport._modulus_pack = prev
        CURRENT_PACK = prev_cur
        shutil.rmtree(d, ignore_errors=True)


# ---- tap that also remembers the seqno a failing read was using ---------------------
def make_tap(rec, side, on_send=None, on_read=None):
    Base = tap.make_tap(rec, side, on_send, on_read)

    class SeqTap(Base):
        def read_message(self):
            before = tap.pz(self, "sequence_number_in")
            try:
                return super().read_message()
            except Exception as e:
                if type(e).__name__ != "NeedRekeyException":
                    rec.add(kind="readfail", side=side, seq=before, exc=type(e).__name__, text=str(e)[:120],
                            enc=tap.pz(self, "block_engine_in") is not None)
                raise

    SeqTap.__name__ = "SeqTap_" + side
    return SeqTap


# ---- K/H capture -----------------------------------------------------------------
class KH:
    """Wraps `_set_K_H` (instance attribute: the kex engines call it through
    the transport object) and records K, H and the session id after the call."""

    def __init__(self):
        self.lock = threading.Lock()
        self.calls = {"c": [], "s": []}

    def attach(self, t, side):
        orig = t._set_K_H

        def wrapped(k, h, _o=orig, _t=t, _s=side):
            r = _o(k, h)
            with self.lock:
                self.calls[_s].append(dict(K=k, H=h, sid=_t.session_id, engine=type(_t.kex_engine)))
            return r

        t._set_K_H = wrapped


class Derivations:
    """Wraps `_compute_key` (instance attribute; `_activate_inbound/_outbound` call it through the transport)
    and records every derivation together with the index of the exchange it belongs to (= number of
    `_set_K_H` calls seen so far on that side - 1)."""

    def __init__(self, kh):
        self.kh = kh
        self.lock = threading.Lock()
        self.calls = {"c": [], "s": []}

    def attach(self, t, side):
        orig = t._compute_key

        def wrapped(id, nbytes, _o=orig, _s=side):
            out = _o(id, nbytes)
            with self.lock:
                self.calls[_s].append(dict(letter=id if isinstance(id, str) else id.decode(), n=nbytes, out=out,
                                           exchange=len(self.kh.calls[_s]) - 1))
            return out

        t._compute_key = wrapped


def rfc_derive(kex, K, H, letter, session_id, nbytes):
    """RFC 4253 section 7.2: K1 = HASH(K || H || X || session_id), Kn = HASH(K || H || K1 || ... || Kn-1)."""
    h = sshsig.KEX_HASH[kex]
    km = sshsig.mpint(K)
    out = h(km + H + letter.encode() + session_id).digest()
    while len(out) < nbytes:
        out += h(km + H + out).digest()
    return out[:nbytes]


# ---- honest pair with forced algorithms ----------------------------------------------
class Lab:
    def __init__(self, rng, kex=None, hostalg=None, strict_c=True, strict_s=True, host_keys=None,
                 client_kw=None, server_kw=None, with_mitm=False, server=None):
        from vf import mitm as _mitm

        self.rec = tap.Recorder()
        self.link = net.Link(rng)
        self.mitm = _mitm.Mitm(self.link) if with_mitm else None
        ckw = dict(client_kw or {})
        skw = dict(server_kw or {})
        ckw.setdefault("strict_kex", strict_c)
        skw.setdefault("strict_kex", strict_s)
        ckw.setdefault("packetizer_class", make_tap(self.rec, "c"))
        skw.setdefault("packetizer_class", make_tap(self.rec, "s"))
        if host_keys is None:
            host_keys = [hostkey(hostalg or "ssh-rsa")]
        self.pair = pair.Pair(rng=rng, client_kw=ckw, server_kw=skw, host_keys=host_keys, link=self.link,
                              recorder=self.rec, server=server)
        self.tc, self.ts = self.pair.tc, self.pair.ts
        if CURRENT_PACK is not None:
            self.ts._modulus_pack = CURRENT_PACK
        if kex is not None:
            self.tc.get_security_options().kex = [kex]
        if hostalg is not None:
            self.tc.get_security_options().key_types = [hostalg]
        self.kh = KH()
        self.kh.attach(self.tc, "c")
        self.kh.attach(self.ts, "s")
        self.deriv = Derivations(self.kh)
        self.deriv.attach(self.tc, "c")
        self.deriv.attach(self.ts, "s")
        self.kex = kex
        self.hostalg = hostalg

    def start(self, timeout=30):
        return self.pair.start(timeout=timeout)

    def close(self):
        self.pair.close()

    def msgs(self, side, direction, types=None):
        return self.pair.msgs(side, direction, types)

    def events(self):
        return self.rec.snapshot()


# ---- parsing what travelled ----------------------------------------------------------
def parse_reply(payload):
    """payload (incl. type byte) of KEXDH_REPLY / KEX_ECDH_REPLY / GEX_REPLY ->
    (K_S blob, f-or-Q_S body, signature blob)."""
    (ks, f, sig), rest = sshsig.read_strings(payload[1:], 3)
    return ks, f, sig


def build_reply(ptype, ks, f, sig):
    return bytes([ptype]) + sshsig.s(ks) + sshsig.s(f) + sshsig.s(sig)


def exchanges(events, side="c"):
    """Group one side's tap records into key exchanges.  Each exchange is a
    dict with the records of one KEXINIT..NEWKEYS round as that side saw them:
    i_out/i_in (KEXINIT payloads), init (client's 30/32), reply (31/33),
    gex_request (34), gex_group (31 in gex).  Works for the client view."""
    out = []
    cur = None
    for e in events:
        if e.get("kind") != "msg" or e["side"] != side:
            continue
        t = e["type"]
        if t == 20:
            if cur is None or cur.get("done") or ("i_" + e["dir"]) in cur:
                cur = dict(done=False)
                out.append(cur)
            cur["i_" + e["dir"]] = e
        elif cur is not None and 30 <= t <= 41:
            cur.setdefault("kexmsgs", []).append(e)
        elif cur is not None and t == 21:
            cur["newkeys_" + e["dir"]] = e
            if "newkeys_in" in cur and "newkeys_out" in cur:
                cur["done"] = True
    return out


def rfc_hash(kex, v_c, v_s, ex, K):
    """Independent exchange hash for one client-view exchange record."""
    i_c = ex["i_out"]["payload"]
    i_s = ex["i_in"]["payload"]
    km = ex.get("kexmsgs", [])
    by = {}
    for e in km:
        by.setdefault((e["dir"], e["type"]), e)
    gex = None
    if is_gex(kex):
        if ("out", 34) in by:
            req = by[("out", 34)]["payload"]
            mn, n, mx = struct.unpack(">III", req[1:13])
        else:  # SSH_MSG_KEX_DH_GEX_REQUEST_OLD
            (n,) = struct.unpack(">I", by[("out", 30)]["payload"][1:5])
            mn = mx = None
        (p, g), _ = sshsig.read_strings(by[("in", 31)]["payload"][1:], 2)
        gex = (mn, n, mx, sshsig.to_int(p), sshsig.to_int(g))
        (e_body,), _ = sshsig.read_strings(by[("out", 32)]["payload"][1:], 1)
        ks, f_body, sig = parse_reply(by[("in", 33)]["payload"])
    else:
        (e_body,), _ = sshsig.read_strings(by[("out", 30)]["payload"][1:], 1)
        ks, f_body, sig = parse_reply(by[("in", 31)]["payload"])
    if is_dh(kex):
        cp, sp = sshsig.to_int(e_body), sshsig.to_int(f_body)
    else:
        cp, sp = e_body, f_body
    return sshsig.exchange_hash(kex, v_c, v_s, i_c, i_s, ks, cp, sp, K, gex=gex), ks, sig
