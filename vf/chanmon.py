"""Channel-layer monitors shared by the channel checks (C19-C23, C25).

Three pieces:

* `install()` + `watch(transport, rec, side)` -- harness-side observability on
  the *real* classes (nothing in the tree is edited): every byte an application
  takes out of a channel (`BufferedPipe.read` return lengths), and the three
  decisions `Channel` takes under its own lock (send-window allocated,
  `eof_sent` set, `closed` set) are logged into the same Recorder as the wire
  tap, so they are totally ordered with the messages.
* `parse(payload)` -- independent decoder for the connection-protocol messages
  90..100 (RFC 4254), never calling paramiko.
* `ledger(events, side)` -- cuts one side's tap log into *channel instances*
  (ids are re-used after a close, so an id is not an identity) and gives each
  instance its ordered event list; the per-property oracles run over those.
"""
import itertools
import random
import struct
import sys
import threading
import time
import weakref

OPEN, OPEN_OK, OPEN_FAIL, ADJUST, DATA, EXT, EOF, CLOSE, REQUEST, SUCCESS, FAILURE = range(90, 101)
NAMES = {OPEN: "OPEN", OPEN_OK: "OPEN_CONFIRMATION", OPEN_FAIL: "OPEN_FAILURE", ADJUST: "WINDOW_ADJUST",
         DATA: "DATA", EXT: "EXTENDED_DATA", EOF: "EOF", CLOSE: "CLOSE", REQUEST: "REQUEST",
         SUCCESS: "SUCCESS", FAILURE: "FAILURE"}

_serial = itertools.count(1)
_installed = False


# --------------------------------------------------------------------------
# observability hooks
def watch(transport, rec, side):
    """Tell the hooks where events of channels of `transport` go."""
    transport._vf_watch = (rec, side)


def _log(chan, **kw):
    t = chan.transport
    w = getattr(t, "_vf_watch", None) if t is not None else None
    if w is None:
        return
    w[0].add(kind="chan", side=w[1], serial=getattr(chan, "_vf_serial", 0), local=chan.chanid,
             thread=threading.get_ident(), **kw)


def install():
    """Idempotent. Wraps (does not replace the logic of) a few methods."""
    global _installed
    if _installed:
        return
    _installed = True
    from paramiko.buffered_pipe import BufferedPipe
    from paramiko.channel import Channel

    o_init = Channel.__init__

    def init(self, chanid):
        o_init(self, chanid)
        self._vf_serial = next(_serial)
        ref = weakref.ref(self)
        self.in_buffer._vf_owner = (ref, "out")
        self.in_stderr_buffer._vf_owner = (ref, "err")

    Channel.__init__ = init

    o_read = BufferedPipe.read

    def read(self, nbytes, timeout=None):
        out = o_read(self, nbytes, timeout)
        owner = getattr(self, "_vf_owner", None)
        if owner is not None and len(out):
            chan = owner[0]()
            if chan is not None:
                _log(chan, ev="consume", stream=owner[1], len=len(out))
        return out

    BufferedPipe.read = read

    o_active = Channel._set_remote_channel

    def _set_remote_channel(self, chanid, window_size, max_packet_size):
        r = o_active(self, chanid, window_size, max_packet_size)
        _log(self, ev="active", remote=chanid)
        return r

    Channel._set_remote_channel = _set_remote_channel

    o_wait = Channel._wait_for_send_window

    def _wait_for_send_window(self, size):
        r = o_wait(self, size)  # the caller holds the channel lock
        _log(self, ev="winok", len=r, eof_sent=bool(self.eof_sent), closed=bool(self.closed))
        return r

    Channel._wait_for_send_window = _wait_for_send_window

    o_eof = Channel._send_eof

    def _send_eof(self):
        m = o_eof(self)  # the caller holds the channel lock
        if m is not None:
            _log(self, ev="eofset")
        return m

    Channel._send_eof = _send_eof

    o_closed = Channel._set_closed

    def _set_closed(self):
        was = self.closed
        r = o_closed(self)
        if not was:
            _log(self, ev="closedset")
        return r

    Channel._set_closed = _set_closed


# --------------------------------------------------------------------------
# wire decoder (independent of paramiko.message)
def _u32(b, off):
    return struct.unpack_from(">I", b, off)[0]


def parse(payload):
    """Decode one connection-protocol payload (type byte included)."""
    t = payload[0]
    try:
        if t == OPEN:
            k = _u32(payload, 1)
            kind = payload[5:5 + k]
            sender, win, pkt = struct.unpack_from(">III", payload, 5 + k)
            return dict(type=t, kind=kind.decode("utf-8", "replace"), sender=sender, window=win, maxpkt=pkt)
        if t == OPEN_OK:
            rcpt, sender, win, pkt = struct.unpack_from(">IIII", payload, 1)
            return dict(type=t, rcpt=rcpt, sender=sender, window=win, maxpkt=pkt)
        if t == ADJUST:
            rcpt, n = struct.unpack_from(">II", payload, 1)
            return dict(type=t, rcpt=rcpt, adj=n)
        if t == DATA:
            rcpt, n = struct.unpack_from(">II", payload, 1)
            return dict(type=t, rcpt=rcpt, len=n, off=9, ok=(len(payload) == 9 + n))
        if t == EXT:
            rcpt, code, n = struct.unpack_from(">III", payload, 1)
            return dict(type=t, rcpt=rcpt, code=code, len=n, off=13, ok=(len(payload) == 13 + n))
        if t == REQUEST:
            rcpt, k = struct.unpack_from(">II", payload, 1)
            name = payload[9:9 + k].decode("utf-8", "replace")
            return dict(type=t, rcpt=rcpt, name=name, want_reply=bool(payload[9 + k]), off=10 + k)
        if t in (OPEN_FAIL, EOF, CLOSE, SUCCESS, FAILURE):
            return dict(type=t, rcpt=_u32(payload, 1))
    except (struct.error, IndexError):
        return dict(type=t, malformed=True)
    return None


class Inst:
    """One channel instance as seen from one side X.
    local = X's id, peer = the other side's id, credit0/peer_maxpkt = what the
    peer granted X (X's send limits), my_window/my_maxpkt = what X granted."""

    def __init__(self, side):
        self.side = side
        self.local = self.peer = None
        self.opener = None
        self.credit0 = self.peer_maxpkt = None
        self.my_window = self.my_maxpkt = None
        self.serial = None
        self.kind = None
        self.ev = []  # ordered dicts: d in {"out","in","app"}, t = msg type or hook name
        self.established = False

    def desc(self):
        return dict(side=self.side, local=self.local, peer=self.peer, opener=self.opener, grant_to_me=self.credit0,
                    peer_maxpkt=self.peer_maxpkt, my_window=self.my_window, my_maxpkt=self.my_maxpkt)

    def excerpt(self, last=25):
        out = []
        for e in self.ev[-last:]:
            t = e["t"]
            out.append("%s:%s%s" % (e["d"], NAMES.get(t, t), ("(%s)" % e["len"]) if "len" in e else
                                    ("(+%s)" % e["adj"]) if "adj" in e else ""))
        return out


def ledger(events, side):
    """Cut the events of `side` (tap + hooks, already in recorder order) into
    channel instances. Returns (instances, stray) where stray lists channel
    messages that matched no instance."""
    insts = []
    stray = []
    pend_out = {}  # my id -> Inst (I sent OPEN)
    pend_in = {}  # peer id -> parsed OPEN (I read OPEN)
    by_local = {}
    by_peer = {}
    by_serial = {}
    pend_active = {}  # local id -> serial (hook fired before my OPEN_CONFIRMATION went out)
    for e in events:
        if e.get("side") != side:
            continue
        k = e.get("kind")
        if k == "chan":
            ser = e["serial"]
            if e["ev"] == "active":
                inst = by_local.get(e["local"])
                if inst is not None and inst.serial is None and inst.opener:
                    inst.serial = ser
                    by_serial[ser] = inst
                else:
                    pend_active[e["local"]] = ser
                continue
            inst = by_serial.get(ser)
            if inst is None:
                continue
            d = dict(e)
            d["d"] = "app"
            d["t"] = e["ev"]
            inst.ev.append(d)
            continue
        if k != "msg" or not (OPEN <= e["type"] <= FAILURE):
            continue
        p = parse(e["payload"])
        if p is None or p.get("malformed"):
            stray.append(e)
            continue
        t = p["type"]
        out = e["dir"] == "out"
        rec = dict(p, n=e["n"], d=e["dir"], t=t, thread=e.get("thread"))
        if t == OPEN:
            if out:
                inst = Inst(side)
                inst.opener = True
                inst.local = p["sender"]
                inst.my_window, inst.my_maxpkt, inst.kind = p["window"], p["maxpkt"], p["kind"]
                inst.ev.append(rec)
                pend_out[inst.local] = inst
                insts.append(inst)
            else:
                pend_in[p["sender"]] = rec
            continue
        if t == OPEN_OK:
            if out:
                o = pend_in.pop(p["rcpt"], None)
                if o is None:
                    stray.append(e)
                    continue
                inst = Inst(side)
                inst.opener = False
                inst.local, inst.peer = p["sender"], p["rcpt"]
                inst.credit0, inst.peer_maxpkt, inst.kind = o["window"], o["maxpkt"], o["kind"]
                inst.my_window, inst.my_maxpkt = p["window"], p["maxpkt"]
                inst.established = True
                inst.ev.append(o)
                inst.ev.append(rec)
                ser = pend_active.pop(inst.local, None)
                if ser is not None:
                    inst.serial = ser
                    by_serial[ser] = inst
                by_local[inst.local] = inst
                by_peer[inst.peer] = inst
                insts.append(inst)
            else:
                inst = pend_out.pop(p["rcpt"], None)
                if inst is None:
                    stray.append(e)
                    continue
                inst.peer, inst.credit0, inst.peer_maxpkt = p["sender"], p["window"], p["maxpkt"]
                inst.established = True
                inst.ev.append(rec)
                by_local[inst.local] = inst
                by_peer[inst.peer] = inst
            continue
        if t == OPEN_FAIL:
            if out:
                pend_in.pop(p["rcpt"], None)
            else:
                inst = pend_out.pop(p["rcpt"], None)
                if inst is not None:
                    inst.ev.append(rec)
            continue
        inst = (by_peer if out else by_local).get(p["rcpt"])
        if inst is None:
            stray.append(e)
            continue
        inst.ev.append(rec)
    return insts, stray


# --------------------------------------------------------------------------
# unambiguous byte streams (DESIGN 2.3): stdout bytes 0x00-0x7F, stderr 0x80-0xFF
_LOW = bytes(i & 0x7F for i in range(256))
_HIGH = bytes(i | 0x80 for i in range(256))
HIGH_BYTES = bytes(range(128, 256))
LOW_BYTES = bytes(range(0, 128))


def stream_bytes(seed, stream, n):
    """Seeded sequence for (`seed`, stream); position is checkable because the
    whole sequence is reproducible."""
    r = random.Random("%s/%s" % (seed, stream))
    b = r.randbytes(n) if n else b""
    return b.translate(_HIGH if stream == "err" else _LOW)


def split_streams(b):
    """(stdout part, stderr part) of a combined stream, by high bit."""
    return b.translate(None, HIGH_BYTES), b.translate(None, LOW_BYTES)


def first_diff(a, b):
    n = min(len(a), len(b))
    if a[:n] == b[:n]:
        return n if len(a) != len(b) else -1
    lo, hi = 0, n
    while hi - lo > 1:
        mid = (lo + hi) // 2
        if a[lo:mid] == b[lo:mid]:
            lo = mid
        else:
            hi = mid
    return lo


def is_interleaving(s, a, b):
    """Is `s` an interleaving of `a` and `b` (each kept in order)?  Frontier
    search; near-linear on random data.  Returns (ok, position_of_failure)."""
    if len(a) + len(b) != len(s):
        return False, min(len(s), len(a) + len(b))
    if not b:
        d = first_diff(s, a)
        return d < 0, d
    if not a:
        d = first_diff(s, b)
        return d < 0, d
    la, lb = len(a), len(b)
    states = {0}
    k = 0
    n = len(s)
    while k < n:
        if len(states) == 1:
            # fast path: extend along whichever side matches unambiguously
            (i,) = states
            j = k - i
            if i == la:
                d = first_diff(s[k:], b[j:])
                return d < 0, (k + d if d >= 0 else -1)
            if j == lb:
                d = first_diff(s[k:], a[i:])
                return d < 0, (k + d if d >= 0 else -1)
        c = s[k]
        new = set()
        for i in states:
            j = k - i
            if i < la and a[i] == c:
                new.add(i + 1)
            if j < lb and b[j] == c:
                new.add(i)
        if not new:
            return False, k
        states = new
        k += 1
    return True, -1


# --------------------------------------------------------------------------
# small workload helpers
def send_all(chan, data, rng, stderr=False, maxchunk=None, pause=None):
    """Application-level write loop over send()/send_stderr() with seeded chunk
    sizes.  Returns bytes accepted.  Raises what the channel raises."""
    fn = chan.send_stderr if stderr else chan.send
    off = 0
    n = len(data)
    while off < n:
        c = rng.choice((1, 7, 100, 1000, 4096, 32768, 70000, 1 << 20))
        c = rng.randint(1, c)
        if maxchunk:
            c = min(c, maxchunk)
        sent = fn(data[off:off + c])
        if sent <= 0:
            raise EOFError("send returned %r" % sent)
        off += sent
        if pause is not None:
            pause()
    return off


def diverge_ids(p, rng, spread=3):
    """Make local and remote channel ids differ (and the two sides' id ranges overlap): by default both
    transports count from 0 in step, which hides any use of the wrong one of chanid / remote_chanid."""
    base = rng.choice((0, 1, 5, 1000, (1 << 24) - 2))
    off = rng.randint(1, spread)
    a, b = (base, base + off) if rng.random() < 0.5 else (base + off, base)
    with p.tc.lock:
        p.tc._channel_counter = a & 0xFFFFFF
    with p.ts.lock:
        p.ts._channel_counter = b & 0xFFFFFF


def parked_writer_scenario(p, c, s, role, api, ender, size, window):
    """A writer parked in the send-window wait (window == 0) while another thread ends the stream (shutdown_write /
    close); the peer's WINDOW_ADJUST is processed *before* the woken writer gets the channel lock back.
    Forced with a held link direction (the adjust waits behind the gate) and an instance wrapper on
    out_buffer_cv.wait that makes the woken writer lose the race for the lock until the adjust is in.
    Preconditions: `window` is what the peer granted x.  Returns a dict describing what happened."""
    x, y = (c, s) if role == "c" else (s, c)
    to_x = p.link.ba if role == "c" else p.link.ab
    out = dict(ok=False)
    x.settimeout(60)
    send_all(x, bytes(window), random.Random(1))
    x.settimeout(None)
    if x.out_window_size != 0 or not _wait(lambda: len(y.in_buffer) == window, 20):
        out["why"] = "window not exhausted"
        return out
    res = {}
    me = {}
    cv = x.out_buffer_cv
    orig = cv.wait
    seen = dict(lost_race=0, adjust_in_before_reacquire=0)

    def wait(timeout=None):
        r = orig(timeout)
        if threading.get_ident() == me.get("id") and (x.eof_sent or x.closed) and not seen["lost_race"]:
            # woken by the end-of-stream notify: lose the race for the channel lock until the adjust has been processed
            seen["lost_race"] = 1
            x.lock.release()
            try:
                if _wait(lambda: x.out_window_size > 0, 10):
                    seen["adjust_in_before_reacquire"] = 1
            finally:
                x.lock.acquire()
        return r

    cv.wait = wait

    def call():
        me["id"] = threading.get_ident()
        try:
            res["value"] = getattr(x, api)(b"\x5a" * size)
            res["outcome"] = "returned"
        except BaseException as e:
            res["outcome"] = "raised:" + type(e).__name__

    t = threading.Thread(target=call, daemon=True, name="parked-writer")
    t.start()
    if not _wait(lambda: "_wait_for_send_window" in " ".join(stacks_of([t]).get("parked-writer", [])), 20):
        out["why"] = "writer did not park"
        return out
    to_x.hold()
    got = y.recv(window)  # one adjust of `window` bytes, now waiting behind the gate
    if len(got) != window or not _wait(lambda: to_x.held, 10):
        to_x.release()
        out["why"] = "no adjust behind the gate"
        return out
    if ender == "shutdown_write":
        x.shutdown_write()
    else:
        x.close()
    _wait(lambda: seen["lost_race"], 10)
    to_x.release()  # EOF/CLOSE decided -> adjust processed -> only then does the writer get the lock back
    t.join(60)
    out.update(ok=not t.is_alive(), thread=t, ident=me.get("id"), seen=seen, res=res)
    if t.is_alive():
        out["why"] = "writer did not return"
    return out


def _wait(cond, timeout, step=0.002):
    end = time.monotonic() + timeout
    while time.monotonic() < end:
        if cond():
            return True
        time.sleep(step)
    return bool(cond())


class PollReader:
    """A receiving application that keeps reading both streams (polling, so it can
    never block itself on the wrong stream).  `settle()` proves the reader is
    between reads: it returns once two complete idle iterations have passed."""

    def __init__(self, chan, seed, maxread=9000, keep=False):
        self.chan, self.maxread, self.keep = chan, max(1, maxread), keep
        self.rng = random.Random(seed)
        self.got = dict(out=0, err=0)
        self.data = dict(out=bytearray(), err=bytearray())
        self.idle = 0
        self.error = None
        self._stop = threading.Event()
        self.thread = threading.Thread(target=self._run, daemon=True, name="pollreader")

    def start(self):
        self.thread.start()
        return self

    def _run(self):
        c = self.chan
        try:
            while not self._stop.is_set():
                did = False
                if c.recv_ready():
                    b = c.recv(self.rng.randint(1, self.maxread))
                    self.got["out"] += len(b)
                    if self.keep:
                        self.data["out"] += b
                    did = True
                if c.recv_stderr_ready():
                    b = c.recv_stderr(self.rng.randint(1, self.maxread))
                    self.got["err"] += len(b)
                    if self.keep:
                        self.data["err"] += b
                    did = True
                if not did:
                    self.idle += 1
                    time.sleep(0.0005)
        except Exception as e:  # noqa
            self.error = e

    def settle(self, timeout=20):
        mark = self.idle
        end = time.monotonic() + timeout
        while time.monotonic() < end:
            if self.idle >= mark + 2 or not self.thread.is_alive():
                return True
            time.sleep(0.001)
        return False

    def stop(self):
        self._stop.set()
        self.thread.join(10)


def stacks_of(threads):
    frames = sys._current_frames()
    out = {}
    for t in threads:
        f = frames.get(t.ident)
        st = []
        while f is not None:
            st.append("%s:%s:%d" % (f.f_code.co_filename.rsplit("/", 1)[-1], f.f_code.co_name, f.f_lineno))
            f = f.f_back
        out[t.name] = st
    return out


def blocked_at_quiescence(threads, link, margin, samples=4):
    """DESIGN 2.4 rule (2): link drained and idle, the given threads alive with
    an unchanged stack over `samples` looks spanning `margin` seconds."""
    first = None
    for i in range(samples):
        if not all(t.is_alive() for t in threads):
            return False, None
        if not link.quiescent(0.2):
            return False, None
        st = stacks_of(threads)
        # the innermost frames may sit in a cv.wait loop; compare function chains, not line numbers of waits
        key = {k: [x.rsplit(":", 1)[0] for x in v] for k, v in st.items()}
        if first is None:
            first = key
        elif key != first:
            return False, None
        if i + 1 < samples:
            time.sleep(margin / (samples - 1))
    return True, st
