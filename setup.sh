#!/bin/bash
# Offline setup: nothing to compile. Optionally place icontract beside the
# repository's interpreter (used by a few contract-style monitors; the checks
# fall back to an equivalent built-in decorator when it is absent).
here="$(cd "$(dirname "${BASH_SOURCE[0]}")" && pwd)"
cd "$here" || exit 1
mkdir -p evidence .deps
if [ ! -d .deps/icontract ]; then
  PIP_NO_INDEX=1 /venv/bin/pip install -q --no-index --find-links /opt/veriftools/wheels \
     --target "$here/.deps" icontract >/dev/null 2>&1 || echo "icontract not installed (fallback in use)"
fi
/venv/bin/python -B -c "import paramiko, sys; print('paramiko', paramiko.__version__, 'python', sys.version.split()[0])"
exit 0
