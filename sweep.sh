#!/bin/bash
# ./sweep.sh "<ids or 'ready'>" "<seeds>" <tier>  -- run checks without touching evidence, print one line each
ids="$1"; seeds="${2:-0 1 2}"; tier="${3:-quick}"
[ "$ids" = "ready" ] && ids="$(cat vf/READY)"
for id in $ids; do for s in $seeds; do
  out=$(./check $id --tier $tier --seed $s --no-evidence 2>&1); rc=$?
  echo "$id seed=$s tier=$tier rc=$rc :: $(echo "$out" | grep -E "VIOLATION|INCONCLUSIVE|KNOWN-FINDING|signature:" | head -4 | cut -c1-200 | tr '\n' ';') $(echo "$out" | grep -E "HELD|VIOLATED" | tail -1 | sed 's/.*: \(HELD\|VIOLATED\|INCONCLUSIVE\)/\1/' | cut -c1-90)"
done; done
